#!/bin/bash
# tools/mutrun.sh <patch.diff> <Cxx> [tier]  — applies a seeded change to the scratch
# worktree /tmp/scr (never to /repo) and runs one check against it.
set -u
patch=$1; prop=$2; tier=${3:-quick}
SCR=${SCR:-/tmp/scr}
if [ ! -d $SCR ]; then git -C /repo worktree add -q --detach $SCR HEAD; fi
git -C $SCR checkout -q -f --detach $(git -C /repo rev-parse HEAD) && git -C $SCR clean -qfd
git -C $SCR apply "$patch" || { echo "PATCH DOES NOT APPLY"; exit 3; }
cd /verif
out=$(VERIF_NO_EVIDENCE=1 VERIF_REPO=$SCR timeout 3000 ./check $prop $tier 2>&1); rc=$?
echo "$out" | grep -E "^VIOLATION|^KNOWN|^  case" | head -${LINES_SHOWN:-4} | cut -c1-330
echo "$out" | grep -E "^$prop $tier" | cut -c1-200
echo "exit=$rc"
git -C $SCR checkout -q -f HEAD -- . 
