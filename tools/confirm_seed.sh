#!/bin/bash
# tools/confirm_seed.sh <srcdir> <name> <property> — confirms a seeded change in the scratch
# worktree /tmp/scr: demo passes without the patch, patch applies and builds, the existing
# suite passes with it, demo fails with it. Writes /verif/seeded/<name>/.
set -u
src=$1; name=$2; prop=$3
export GOFLAGS=-mod=mod GOPROXY=off GOSUMDB=off GOTOOLCHAIN=local
SCR=/tmp/scr
[ -d $SCR ] || git -C /repo worktree add -q --detach $SCR HEAD
git -C $SCR checkout -q -f --detach $(git -C /repo rev-parse HEAD) && git -C $SCR clean -qfd
demo_cmd=$(python3 -c "import json;print(json.load(open('$src/meta.json'))['demo_cmd'])")
destdir=$SCR; case "$demo_cmd" in *./datatype*) destdir=$SCR/datatype;; esac
place() { for f in $src/*_test.go; do cp $f $destdir/; done; }
unplace() { for f in $src/*_test.go; do rm -f $destdir/$(basename $f); done; }
cd $SCR
place
bash -c "$demo_cmd" > /tmp/confirm.$name.a.log 2>&1; a=$?
git -C $SCR apply $src/patch.diff || { echo "$name: PATCH DOES NOT APPLY"; exit 1; }
go build ./... > /tmp/confirm.$name.b.log 2>&1; b=$?
unplace
go test -vet=off -count=1 ./... > /tmp/confirm.$name.c.log 2>&1; c=$?
place
bash -c "$demo_cmd" > /tmp/confirm.$name.d.log 2>&1; d=$?
unplace
git -C $SCR checkout -q -f HEAD -- . ; git -C $SCR clean -qfd
ok=no; [ $a -eq 0 ] && [ $b -eq 0 ] && [ $c -eq 0 ] && [ $d -ne 0 ] && ok=yes
echo "$name ($prop): demo_without_patch_exit=$a build=$b suite_with_patch_exit=$c demo_with_patch_exit=$d confirmed=$ok"
if [ $ok = yes ]; then
  mkdir -p /verif/seeded/$name
  cp $src/patch.diff /verif/seeded/$name/
  for f in $src/*_test.go; do cp $f /verif/seeded/$name/$(basename $f).txt; done
  python3 - "$src" "$name" "$prop" "$a" "$c" "$d" <<'PY'
import json,sys,subprocess
src,name,prop,a,c,d=sys.argv[1:]
m=json.load(open(src+'/meta.json'))
out={"id":name,"property":prop,"summary":m.get("summary"),"needs":m.get("needs"),"files_changed":m.get("files_changed"),
 "demo_cmd":m.get("demo_cmd"),"demo_files":"*_test.go.txt (rename to *_test.go and place in the package named by demo_cmd)",
 "origin":"independent sub-agent given only the property text and a private worktree",
 "confirmed_by_me":{"repo_head":subprocess.run(["git","-C","/repo","rev-parse","--short","HEAD"],capture_output=True,text=True).stdout.strip(),
   "what_i_ran":"tools/confirm_seed.sh in scratch worktree /tmp/scr: demo on unmodified tree, git apply patch.diff, go build ./..., go test -vet=off -count=1 ./... (demo moved aside), demo again",
   "demo_without_patch_exit":int(a),"existing_suite_with_patch_exit":int(c),"demo_with_patch_exit":int(d)},
 "detected_by":[]}
json.dump(out,open(f"/verif/seeded/{name}/meta.json","w"),indent=1)
PY
fi
