#!/usr/bin/env python3
"""Writes /verif/known_findings.json.  Fixed entries are looked up in /repo's
history by the subject of their `fix:` commit (so hashes stay right after a
rebase); OPEN entries are maintained by hand below.  Never run by a check."""
import json, subprocess, os
FIXED = [
 # (subject fragment, [properties], defect id, what failed)
 ("sequential reader ran past the end", ["C02","C11"], "D2", "Open/Merge panicked (slice bounds) when a data file ends 1..7 bytes before a 32 KiB block boundary"),
 ("chunk decoder sliced out of range", ["C12"], "D17", "DecodeChunk panicked on a damaged 16-bit length or fewer than 7 bytes of block"),
 ("batch-finished record carried batch id 0", ["C02","C04","C19"], "D1", "every committed batch vanished on restart and a phantom key (the batch id) appeared"),
 ("Batch.Get read every database value through the active file", ["C05"], "D10", "Batch.Get of a key stored in a rotated file returned another record's bytes / EOF / CRC error"),
 ("repeated Batch.Put on one key kept a staged delete", ["C05","C15","C14"], "D11/D19", "put-after-delete in one batch committed as delete; repeated Batch.Put retained caller key and value slices and parked the caller's value in the record pool"),
 ("Batch.Get handed out the staged record", ["C15"], "D19", "slice returned by Batch.Get for a staged key was the pooled staging buffer and changed later"),
 ("a committed batch could be used again", ["C05","C09"], "D12", "second Commit / Commit of an empty batch unlocked db.mu twice (fatal error); Batch.Delete had no committed check"),
 ("Put and Delete updated the index after releasing the write lock", ["C08","C09"], "D13", "racing Puts left the live view on the older record while restart recovered the newer; concurrent double delete returned ErrIndexUpdateFailed"),
 ("ListKeys sized its result", ["C09"], "D14", "ListKeys panicked (index out of range) or returned nil keys when a write landed between snapshot and Size()"),
 ("Sync, Merge and the merge precondition read shared state", ["C09"], "D15", "data races on activeFile/isMerging/totalSize/reclaimSize; two concurrent Merge calls could both start"),
 ("concurrent iterators raced inside the B-tree clone", ["C09"], "D16", "data race in btree.Clone when two iterators are created concurrently"),
 ("B-tree and skip-list indexes kept the caller", ["C14","C15"], "D19", "reusing the key buffer after Put corrupted B-tree and skip-list indexes"),
 ("closing a standard-I/O file did not flush", ["C13"], "D18", "DB.Close with standard I/O returned with unflushed acknowledged writes"),
 ("a Sync batch returned from Commit with its sealing record unflushed", ["C13","C04"], "D18", "the batch-finished record of a Sync batch was written after the fsync and never flushed"),
 ("a failed Open kept the directory lock", ["C16"], "D20", "after an Open that failed behind TryLock the directory could not be opened again from that process"),
 ("Backup shrank memory-mapped files", ["C20"], "D22", "first write past the last page after an MMap Backup killed the process with SIGBUS"),
 ("batch writes were charged to the reclaimable counter", ["C17","C06"], "D21", "ReclaimableSize exceeded DiskSize after batch traffic (Merge refused with ErrNoEnoughSpaceForMerge); a batch could overfill the active file to ~2x DataFileSize"),
 ("merge rewrote batch-written records with their batch id", ["C06","C04"], "D7", "batch-written keys vanished at the second restart after a merge"),
 ("merge never closed the output files", ["C02","C06"], "D9", "fd leak per merge; with MMap adopted files kept a 512 MiB zero tail"),
 ("merge output could reach the id of a file", ["C06","C18"], "D8", "merge output needing more files than the input overwrote/lost data at adoption"),
 ("adopting a finished merge lost data", ["C06","C07"], "D6", "adoption failed after removing originals when the output had fewer files; a retried adoption deleted the files it had just adopted"),
 ("the merge-finished marker could never be read back", ["C06","C07","C18"], "D5", "no merge was ever adopted; merge directory never removed"),
 ("a record torn by a crash at the end of the newest data file", ["C03","C04"], "D3", "a torn last chunk made Open fail with ErrInvalidCRC (or glued later appends to the fragment)"),
 ("memory-mapped I/O could not be reopened after an unclean shutdown", ["C03","C04","C07"], "D4", "MMap files keep their 512 MiB zero tail after process death; Open failed with ErrInvalidCRC"),
 ("readers panicked when intact chunks appear in the wrong place", ["C12"], "D23", "a block overwritten by a copy of another block (intact chunks out of order) made Open/Get/Fold/reader panic (slice bounds, multi-gigabyte allocation) in DecodeLogRecord"),
 ("an expired string key answered WRONGTYPE", ["C19"], "D24", "HSet/SAdd/LPush/ZAdd... on a string whose TTL had passed returned the wrong-type error instead of treating the key as absent"),
 ("structure commands treated a string with an overflowed TTL", ["C19"], "D24b", "follow-up to D24: the expiry test added to findMetadata (expire != 0) disagreed with Get (expire > 0) for a TTL beyond the year 2262, so HSet... replaced a string that Get still serves; found when 'for ever' TTLs were added to the C19 workload"),
 ("merge directory is derived from the cleaned absolute", ["C02","C06","C07"], "D26", "DirPath spelled with a trailing '/.' (or '.' vs the absolute path) named another merge directory than other spellings of the same data directory: a merge finished under one spelling was not adopted under another, stayed behind and was adopted later over newer files (keys lost and resurrected); found when restarts began to alternate spellings of DirPath"),
 ("the hint file stayed open", ["C20"], "D25", "after an adopted merge under MMap the data directory kept a 512 MiB..1 GiB hint file that Backup copied byte for byte (backup of KiB of data took minutes; hit the harness watchdog)"),
]
OPEN = [
 {"property":"C12","signature":"older-file-truncated-at-record-boundary",
  "match":{"class":"damage","fault":"truncate","file":"older","cut":"record-boundary","outcome":"wrong-data"},
  "what":"a data file other than the newest one that is truncated exactly at a record boundary (incl. to length 0) is accepted silently: the records behind the cut vanish (older values are served, deleted keys return, a batch whose sealing record was cut off is dropped). The format has no end-of-file marker or size record for rotated files, so no reader can notice; repairing it needs a format change (e.g. a record in file n+1 stating the final size of file n), which is not a small, safe patch. Truncation inside a record, and any truncation of the newest file (C03's torn tail), are handled."},
]
log = subprocess.run(["git","-C","/repo","log","--format=%h\t%s"],capture_output=True,text=True).stdout.splitlines()
out=[]
for frag,props,did,what in FIXED:
    hit=[l for l in log if l.split("\t",1)[1].startswith("fix:") and frag in l]
    if len(hit)!=1:
        print("WARNING: no unique commit for", frag, hit); continue
    h=hit[0].split("\t")[0]
    for p in props:
        out.append({"status":"fixed","property":p,"commit":h,"defect":did,"what":what,
                    "line":f"fixed: property={p} {h} {what}"})
for e in OPEN:
    e=dict(e); e["status"]="open"; e["line"]=f"KNOWN-FINDING: property={e['property']} {e['what']}"
    out.append(e)
json.dump({"comment":"Committed by hand; never written at run time. status=fixed entries suppress nothing; status=open entries turn violations whose features match `match` (anchored regexps) into KNOWN-FINDING lines.","findings":out},
          open(os.path.join(os.path.dirname(__file__),"..","known_findings.json"),"w"),indent=1)
print(len(out),"entries")
