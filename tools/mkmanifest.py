#!/usr/bin/env python3
"""Regenerates /verif/MANIFEST.json from the table below.  BUILT lists the
properties whose checks exist; all others go to not_applicable with the reason
'check not built yet' (kept current by hand while the framework grows)."""
import json, subprocess, sys, os

BUILT = os.environ.get("BUILT", "").split() or [l.strip() for l in open(os.path.join(os.path.dirname(__file__), "built.txt")) if l.strip()]

P = {
 "C01": ("exploration", "reference-model monitor (lock-step map) over generated op sequences", "§5/C01",
   "Every Get/ListKeys/Fold/Stat.KeyNum of thousands of generated operation sequences (boundary-landing and multi-block values, rotations, batches, merges) in a covering set of configurations is compared with a reference map, plus special families (populations up to 280 K keys, one mapped file beyond 512 MiB, one file beyond 4 GiB with a torn tail, writes refused by the environment); exploration is the right level because the quantifier is over unbounded sequences and only executions can be observed.",
   "Trusts the reference map, the Go runtime and that vhook I/O events report real file offsets (used only to aim value lengths at block boundaries)."),
 "C02": ("exploration", "dump-before-Close vs dump-after-Open monitor + exhaustive end-offset sweep", "§5/C02",
   "Dump before Close is compared with dump after Open (and with the model) for generated histories with restarts under independently drawn reader configurations, plus a sweep that ends the log at every in-block offset the writer can produce.",
   "Trusts the reference map and os-level file semantics of a clean Close."),
 "C03": ("fault_enumeration", "crash-image enumeration at every hooked I/O event (process death, partial write, power-loss tail cuts), reopened with the real Open", "§5/C03",
   "At every intercepted I/O event of each workload the data directory is copied (process death), additionally with partially completed writes and with every unsynced tail cut back (power loss); each image is reopened with the real engine twice and its dump must be a prefix state within the admissible window.",
   "Power loss is modelled as loss of unsynced file tails only (as the statement says); fsync/msync are trusted to make bytes durable; directory-entry durability not modelled."),
 "C04": ("fault_enumeration", "crash-image enumeration inside and after Commit + restart/merge histories", "§5/C04",
   "Images at every I/O event between NewBatch and Commit's return must reopen to the state before or after the batch, never a part; committed batches must survive restarts, merges and (Sync batches) power-loss images.",
   "Same image model as C03."),
 "C05": ("exploration", "layered reference model (overlay on map) compared after every staged call", "§5/C05",
   "Batch.Get after every staged call, the dump after Commit, and post-commit rejection are compared with a layered model over generated batches on databases whose keys live in rotated and active files, plus single batches of up to 140 K records.",
   "Trusts the layered model; the issuing goroutine only calls Batch methods while the batch is open."),
 "C06": ("exploration", "model dumps at five points around Merge + independent on-disk audit, with paused/racing writers", "§5/C06",
   "Dumps before/after Merge and after 1..3 restarts are compared with the model; the adopted files are decoded independently and must hold exactly the live records; racing writers are interleaved at the merge scan hook.",
   "Trusts vfmt (cross-validated by C11) and the model."),
 "C07": ("fault_enumeration", "crash images (data dir + merge dir) at every hooked step of Merge and adoption, nested once for the retry", "§5/C07",
   "Every file-system/I-O/point event inside Merge and inside adoption yields a byte-exact image of both directories; each is reopened (with image-taking again during the retry) and must dump to the acknowledged mapping; adoption must complete once.",
   "Process-death images only (power loss is not in this property's quantifier)."),
 "C08": ("exploration", "recorded client histories checked with porcupine (per-key register) under a pause scheduler and stress; live vs restart dump", "§5/C08",
   "Concurrent Put/Delete/Get histories recorded at the client boundary with unique values are checked for per-key linearizability; small programs are run under every ordering of hook-delimited segments; after quiescence live and recovered mappings must agree.",
   "porcupine v1.3.0; schedules controlled only at hook points; up to 16 clients."),
 "C09": ("exploration", "Go race detector + panic/error/deadlock monitors over concurrent API stress", "§5/C09",
   "The full API mix is driven from up to 16 goroutines under -race; race reports with engine frames, recovered panics, internal-inconsistency errors and deadlocks (stack signature) are violations.",
   "Race detector sees only executed paths and has bounded history; watchdog expiry without the deadlock signature is inconclusive."),
 "C10": ("exploration", "cursor model over a sorted snapshot compared after every iterator call", "§5/C10",
   "Every Rewind/Seek/Next/Valid/Key/Value of generated call sequences, at index level and DB level, for all index types, shard counts and directions, is compared with a cursor over the sorted snapshot taken at creation, with writes interleaved, several iterators alive at once, populations up to 300 K keys and returned value slices overwritten by the caller.",
   "Seek targets behind the cursor are never generated (unclaimed by the statement)."),
 "C11": ("exploration", "three-way round-trip monitor (bytes written, engine readers, independent decoder) over the offset x length grid", "§5/C11",
   "For every reachable start offset and every boundary-landing length class the record is written, read back sequentially and by position, decoded by vfmt and compared with os.Stat; thorough enumerates the full grid.",
   "Exhaustive only over the stated grid; both I/O back-ends compared byte-wise on sequences."),
 "C12": ("fault_enumeration", "exhaustive single-bit flips and random damage, observed through Open/Get/Fold/reader", "§5/C12",
   "Every bit of every file of small databases is flipped (and larger ones damaged randomly); any panic, any value that was never written for that key, or any stale value outside the torn-tail window is a violation.",
   "Oracle admits the C03 prefix outcome only for damage indistinguishable from a torn tail of the newest file."),
 "C13": ("exploration", "online policy checker over the hooked write/sync event log at every API return (+ strace cross-check)", "§5/C13",
   "Per-file written/durable offsets are maintained from the I/O events and the configured policy is evaluated at every API return, rotation and close; thorough cross-checks the hook log against strace.",
   "A completed fsync/msync event is taken as durability."),
 "C14": ("exploration", "differential transcripts of lock-step runs under configuration pairs", "§5/C14",
   "The same generated sequence is run under several configurations; full transcripts (results, errors, iteration orders, recovered mapping) must be identical, and data-file bytes for batch-free runs; iterators that seek in any direction are compared between configurations with equal shard count.",
   "Transcripts are also checked against the model so a difference can be attributed."),
 "C15": ("exploration", "canary/poison buffers at the client boundary + retained-slice monitor", "§5/C15",
   "One reused key buffer and one reused value buffer are poisoned after every return and verified before the next call; returned slices are kept with private copies and re-compared after later operations.",
   "checkptr via -race in the thorough tier."),
 "C16": ("exploration", "O_EXCL token witness of mutual exclusion across real processes + directory fingerprints", "§5/C16",
   "Child processes and goroutines race Open/Close on one directory; every holder creates an O_EXCL token, so overlap is witnessed exactly; rejected Opens must report the in-use error and leave the directory fingerprint unchanged; failed Opens must release the lock.",
   "flock semantics of the host kernel."),
 "C17": ("exploration", "Stat compared with sizes recomputed by the independent decoder after every step", "§5/C17",
   "After every step Stat is compared with key count, file count and live-record bytes recomputed from an independent scan of the directory; file sizes are checked against the limit with the single-oversized-record exception; a Stat issued concurrently with writers must equal one quiescent state of its call window as a whole.",
   "Trusts vfmt (cross-validated by C11)."),
 "C18": ("exploration", "hint/data cross-decode + two-path Open comparison", "§5/C18",
   "After each merge the hint file and rewritten files are decoded independently and cross-checked entry by entry; the directory is then opened once through the hint and once by scanning, and dumps and sizes must agree.",
   "Trusts vfmt."),
 "C19": ("exploration", "reference model of the five abstract types in lock-step, with restarts", "§5/C19",
   "Every reply of generated command sequences mixing all types, wrong-type use, Del + re-creation and restarts is compared with an in-memory model; TTLs only far past / far future.",
   "Absence encodings are normalised; wall-clock expiry not exercised."),
 "C20": ("exploration", "model snapshot at Backup vs dump of the opened copy, in worker processes", "§5/C20",
   "Backups taken during generated histories are opened while the source is open, dumped against the model snapshot and written to; the source continues (large and multi-block writes, rotations, restart) and is dumped against the model; a worker death (SIGBUS) is a violation.",
   "Process death attributed through the worker journal."),
}

checks=[]; na=[]
for pid,(level,tech,ref,text,note) in sorted(P.items()):
    if pid in BUILT:
        checks.append({
          "property_id": pid,
          "quick_cmd": f"./check {pid} quick",
          "thorough_cmd": f"./check {pid} thorough",
          "evidence_file": f"/verif/evidence/{pid}.json",
          "replay_cmd_template": "./check replay {path}",
          "engine": "vh",
          "level_claimed": {"category": level, "text": text, "design_ref": "DESIGN.md "+ref},
          "level_note": note,
          "technique": tech,
        })
    else:
        na.append({"property_id": pid, "reason": "check not built yet (runtime monitor designed in DESIGN.md "+ref+"; property will move to checks when its monitor exists)"})

hooks_commits = subprocess.run(["git","-C","/repo","log","--format=%h","--grep=^verif hooks"],capture_output=True,text=True).stdout.split()
m = {
 "version": 1,
 "setup_cmd": "./check build",
 "hooks": {
   "guard": "verif",
   "enable": "go build -tags verif (the harness module /verif/harness has `replace github.com/XiXi-2024/xixi-kv => /repo`, so every ./check rebuilds from /repo's working tree with the hooks compiled in)",
   "baseline_off_cmd": "/verif/baseline_off.sh",
   "source_commits": hooks_commits[::-1],
   "add_only": True,
 },
 "engines": [{"name":"vh","path":"/verif/harness","serves_properties":sorted(BUILT),
              "kind_free_text":"Go harness: driver + worker processes running the real engine (built from /repo with -tags verif, -race for C08/C09) under generated workloads, with monitors behind the vhook call sites (I/O event log, crash images, pause scheduler), reference models, an independent on-disk decoder and porcupine"}],
 "checks": checks,
 "not_applicable": na,
 "notes": "Technique family: runtime monitoring and sanitizers only. See DESIGN.md. known_findings.json lists repaired defects (status fixed, suppress nothing) and open findings.",
}
json.dump(m, open(os.path.join(os.path.dirname(__file__),"..","MANIFEST.json"),"w"), indent=1)
print("checks:", [c["property_id"] for c in checks])
