#!/bin/bash
# tools/sweep.sh [tier] [seed]  — runs every check once and prints one line per property
tier=${1:-quick}; seed=${2:-1}
cd /verif
for p in $(cat tools/built.txt); do
  s=$(date +%s)
  out=$(VERIF_SEED=$seed ./check $p $tier 2>&1); rc=$?
  e=$(date +%s)
  line=$(echo "$out" | grep -E "^$p $tier" | cut -c1-150)
  echo "$p rc=$rc $((e-s))s | $line"
  echo "$out" | grep -E "^VIOLATION|^KNOWN|^BROKEN|^NOTE" | head -3
done
