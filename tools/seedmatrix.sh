#!/bin/bash
# tools/seedmatrix.sh <seed-id> <Cxx> [<Cxx> ...] — runs the listed checks (quick) against a
# seeded change applied to the scratch worktree and records the outcome in its meta.json.
id=$1; shift
for prop in "$@"; do
  out=$(/verif/tools/mutrun.sh /verif/seeded/$id/patch.diff $prop quick 2>&1)
  rc=$(echo "$out" | grep -o "exit=[0-9]*" | cut -d= -f2)
  first=$(echo "$out" | grep -A1 "^VIOLATION" | grep "  case" | head -1 | cut -c1-220)
  echo "$id x $prop: exit=$rc $first"
  python3 - "$id" "$prop" "$rc" "$first" <<'PY'
import json,sys
id,prop,rc,first=sys.argv[1:]
p=f"/verif/seeded/{id}/meta.json"; m=json.load(open(p))
m.setdefault("checks_run",{})[prop]={"tier":"quick","exit":int(rc or -1),"first_violation":first.strip()}
m["detected_by"]=sorted(k for k,v in m["checks_run"].items() if v["exit"]==1)
json.dump(m,open(p,"w"),indent=1)
PY
done
