#!/bin/bash
# tools/regress_seeds.sh — re-runs, for every confirmed seeded change, one quick check that is
# recorded as catching it (the property's own check when it is among them) against the patched
# scratch worktree, and prints the ones that are no longer caught.
cd /verif
for d in seeded/s*-*/; do
  id=$(basename $d)
  chk=$(python3 -c "
import json
m=json.load(open('$d/meta.json'))
det=[c for c in m.get('detected_by',[]) if '-' not in c]
own=m['property']
print(own if own in det else (det[0] if det else ''))")
  [ -z "$chk" ] && { echo "$id: no quick check recorded"; continue; }
  out=$(SCR=${SCR:-/tmp/scr} tools/mutrun.sh /verif/$d/patch.diff $chk quick 2>&1)
  rc=$(echo "$out" | grep -o "exit=[0-9]*" | cut -d= -f2)
  echo "$id $chk exit=$rc"
done
