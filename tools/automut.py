#!/usr/bin/env python3
"""tools/automut.py — automatic sensitivity campaign.

Generates small syntactic mutants of the engine (relational / logical / arithmetic operator
replacement, statement deletion, error swallowing), keeps those that compile AND pass the
repository's own test suite, and runs the quick checks against each survivor in a scratch
worktree (never /repo).  A mutant no check notices is either equivalent or a gap; the result
file lists them for manual review.

  automut.py list                      -> prints the number of candidates per file
  automut.py run <scratch> <i> <n> <N> -> runs shard i of n over a sample of N mutants
Results: /verif/seeded/auto/results.<i>.jsonl
"""
import json, os, re, subprocess, sys, hashlib

REPO = '/repo'
FILES = ['db.go', 'batch.go', 'merge.go', 'iterator.go', 'datafile/data_file.go', 'datafile/log_record.go',
         'fio/file_io.go', 'fio/mmap.go', 'index/btree.go', 'index/map.go', 'index/sharded_index.go', 'index/skiplist.go',
         'utils/file.go', 'utils/float.go', 'datatype/meta.go', 'datatype/types.go', 'datatype/generic.go']
ENV = dict(os.environ, GOFLAGS='-mod=mod', GOPROXY='off', GOSUMDB='off', GOTOOLCHAIN='local')

ROR = [(' <= ', ' < '), (' < ', ' <= '), (' >= ', ' > '), (' > ', ' >= '), (' == ', ' != '), (' != ', ' == ')]
LCR = [(' && ', ' || '), (' || ', ' && ')]
AOR = [(' + 1', ' + 0'), (' - 1', ' - 0'), (' += ', ' -= '), (' -= ', ' += '), ('++', '--')]
CALL = re.compile(r'^\s+[A-Za-z_][\w\.\[\]]*\(.*\)\s*$')
ASSIGN = re.compile(r'^\s+[A-Za-z_][\w\.\[\]]*\s*(=|\+=|-=)\s*[^=].*$')


def candidates():
    out = []
    for f in FILES:
        lines = open(os.path.join(REPO, f)).read().split('\n')
        for i, l in enumerate(lines):
            s = l.strip()
            if not s or s.startswith('//') or 'vhook' in l or s.startswith('import') or s.startswith('"'):
                continue
            if 'Lock()' in l or 'Unlock()' in l or 'panic(' in l:
                continue
            code = l.split('//')[0]
            for a, b in ROR:
                if a in code and 'nil' not in code.split(a, 1)[1][:6]:
                    out.append((f, i, 'ROR', a.strip() + '->' + b.strip(), code.replace(a, b, 1)))
            for a, b in LCR:
                if a in code:
                    out.append((f, i, 'LCR', a.strip() + '->' + b.strip(), code.replace(a, b, 1)))
            for a, b in AOR:
                if a in code and not s.startswith('for '):
                    out.append((f, i, 'AOR', a.strip() + '->' + b.strip(), code.replace(a, b, 1)))
            if CALL.match(code) and not s.startswith(('return', 'defer', 'go ', 'if ', 'for ')):
                out.append((f, i, 'SDL', 'delete call', ''))
            elif ASSIGN.match(code) and ':=' not in code and not s.startswith(('if ', 'for ', 'case ')):
                out.append((f, i, 'SDL', 'delete assignment', ''))
            if f.split('/')[0] in ('fio', 'db.go', 'merge.go', 'batch.go', 'utils'):
                continue  # plumbing of I/O errors: only reachable with failing system calls (outside the properties)
            if s == 'return err' or re.match(r'^return (nil, |0, |false, )?err$', s):
                out.append((f, i, 'ERR', 'swallow error', code.replace('err', 'nil') if s == 'return err' else re.sub(r'\berr$', 'nil', code)))
    return out


def order_for(f):
    first = {'datatype': ['C19'], 'index': ['C10', 'C14', 'C01', 'C09'], 'fio': ['C01', 'C13', 'C11', 'C20', 'C02'],
             'merge.go': ['C06', 'C18', 'C02', 'C17'], 'batch.go': ['C05', 'C04', 'C17', 'C01'], 'iterator.go': ['C10', 'C14'],
             'utils': ['C19', 'C20', 'C16'], 'datafile': ['C11', 'C01', 'C02', 'C12', 'C18'], 'db.go': ['C01', 'C02', 'C17', 'C13', 'C16']}
    head = []
    for k, v in first.items():
        if f.startswith(k):
            head = v
    rest = ['C01', 'C02', 'C05', 'C06', 'C17', 'C14', 'C10', 'C11', 'C13', 'C18', 'C19', 'C20', 'C16', 'C15', 'C12', 'C09', 'C08', 'C04']
    return head + [c for c in rest if c not in head]


def sh(cmd, cwd, timeout):
    try:
        p = subprocess.run(cmd, shell=True, cwd=cwd, env=ENV, capture_output=True, text=True, timeout=timeout)
        return p.returncode, p.stdout + p.stderr
    except subprocess.TimeoutExpired:
        return 124, 'timeout'


def run(scr, shard, nshards, nsample):
    cands = candidates()
    # deterministic sample, stratified by hashing
    cands.sort(key=lambda c: hashlib.sha256(repr(c[:4]).encode()).hexdigest())
    cands = cands[:nsample]
    mine = [c for j, c in enumerate(cands) if j % nshards == shard]
    os.makedirs('/verif/seeded/auto', exist_ok=True)
    resf = f'/verif/seeded/auto/results.{shard}.jsonl'
    done = set()
    if os.path.exists(resf):
        for l in open(resf):
            r = json.loads(l)
            done.add((r['file'], r['line'], r['op']))
    head = subprocess.run(['git', '-C', REPO, 'rev-parse', 'HEAD'], capture_output=True, text=True).stdout.strip()
    if not os.path.isdir(scr):
        subprocess.run(['git', '-C', REPO, 'worktree', 'add', '-q', '--detach', scr, 'HEAD'])
    for (f, i, kind, op, new) in mine:
        if (f, i + 1, op) in done:
            continue
        subprocess.run(f'git -C {scr} checkout -q -f --detach {head} && git -C {scr} clean -qfd', shell=True)
        p = os.path.join(scr, f)
        lines = open(p).read().split('\n')
        old = lines[i]
        lines[i] = new
        open(p, 'w').write('\n'.join(lines))
        rec = {'file': f, 'line': i + 1, 'kind': kind, 'op': op, 'old': old.strip(), 'new': new.strip(), 'repo_head': head[:7]}
        rc, out = sh('go build ./...', scr, 300)
        if rc != 0:
            rec['status'] = 'does-not-compile'
        else:
            rc, out = sh('go test -vet=off -count=1 -timeout 10m ./...', scr, 900)
            if rc != 0:
                rec['status'] = 'killed-by-existing-tests'
            else:
                rec['status'] = 'survived-all-checks'
                rec['checks'] = {}
                for c in order_for(f):
                    rc, out = sh(f'VERIF_NO_EVIDENCE=1 VERIF_REPO={scr} timeout 1500 ./check {c} quick', '/verif', 1600)
                    rec['checks'][c] = rc
                    if rc == 1 and 'VIOLATION' in out:
                        m = re.search(r'^  case.*$', out, re.M)
                        rec['status'] = 'detected'
                        rec['detected_by'] = c
                        rec['first_violation'] = (m.group(0) if m else '')[:240]
                        break
        with open(resf, 'a') as fh:
            fh.write(json.dumps(rec) + '\n')
        print(rec['file'], rec['line'], rec['op'], '=>', rec['status'], rec.get('detected_by', ''), flush=True)
    subprocess.run(f'git -C {scr} checkout -q -f --detach {head} && git -C {scr} clean -qfd', shell=True)


if __name__ == '__main__':
    if sys.argv[1] == 'list':
        import collections
        c = collections.Counter((x[0], x[2]) for x in candidates())
        for k, v in sorted(c.items()):
            print(k, v)
        print('total', sum(c.values()))
    else:
        run(sys.argv[2], int(sys.argv[3]), int(sys.argv[4]), int(sys.argv[5]))
