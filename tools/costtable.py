#!/usr/bin/env python3
"""tools/costtable.py <quick sweep log> <thorough sweep log> — markdown table of cases and wall
times per check, from the output of tools/sweep.sh."""
import re, sys
def parse(p):
    out = {}
    for l in open(p):
        m = re.match(r'(C\d\d) rc=(\d+) (\d+)s \| C\d\d \w+ seed=(\d+): cases=(\d+) distinct_nontrivial=(\d+) violations=(\d+) known=(\d+) inconclusive=(\d+)', l)
        if m:
            out[m.group(1)] = m.groups()
    return out
q, t = parse(sys.argv[1]), parse(sys.argv[2])
print("| id | quick: cases / wall | thorough: cases / wall / inconclusive |")
print("|---|---|---|")
for k in sorted(q):
    a = q[k]; b = t.get(k)
    print(f"| {k} | {a[4]} / {a[2]} s | " + (f"{b[4]} / {b[2]} s / {b[8]}" if b else "-") + " |")
