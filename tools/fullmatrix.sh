#!/bin/bash
# tools/fullmatrix.sh — every confirmed seeded change against every cheap quick check
# (C03 and C07 only for seeds that target them), on its own scratch worktree.
export SCR=/tmp/scr2
cd /verif
for d in seeded/s*-*/; do
  id=$(basename $d)
  own=$(python3 -c "import json;print(json.load(open('$d/meta.json'))['property'])")
  for p in C01 C02 C04 C05 C06 C08 C09 C10 C11 C12 C13 C14 C15 C16 C17 C18 C19 C20; do
    done=$(python3 -c "import json;print('$p' in json.load(open('$d/meta.json')).get('checks_run',{}))")
    [ "$done" = True ] && continue
    tools/seedmatrix.sh $id $p
  done
done
