package mon

import (
	"io"
	"os"
	"path/filepath"
	"syscall"
)

const (
	seekData = 3
	seekHole = 4
)

// CopySparse copies src to dst preserving holes (a 512 MiB pre-extended mmap
// file with a few KiB of data is copied in microseconds and stays sparse) and
// the exact physical size.
func CopySparse(src, dst string) error {
	in, err := os.Open(src)
	if err != nil {
		return err
	}
	defer in.Close()
	st, err := in.Stat()
	if err != nil {
		return err
	}
	out, err := os.OpenFile(dst, os.O_CREATE|os.O_WRONLY|os.O_TRUNC, st.Mode().Perm())
	if err != nil {
		return err
	}
	defer out.Close()
	size := st.Size()
	fd := int(in.Fd())
	off := int64(0)
	buf := make([]byte, 256<<10)
	for off < size {
		d, err := syscall.Seek(fd, off, seekData)
		if err != nil {
			if err == syscall.ENXIO {
				break // only a hole remains
			}
			// filesystem without SEEK_DATA: plain copy of the rest
			d = off
			h := size
			if err := copyRange(in, out, d, h, buf); err != nil {
				return err
			}
			break
		}
		h, err := syscall.Seek(fd, d, seekHole)
		if err != nil {
			h = size
		}
		if err := copyRange(in, out, d, h, buf); err != nil {
			return err
		}
		off = h
	}
	return out.Truncate(size)
}

func copyRange(in, out *os.File, from, to int64, buf []byte) error {
	for from < to {
		n := int64(len(buf))
		if to-from < n {
			n = to - from
		}
		m, err := in.ReadAt(buf[:n], from)
		if m > 0 {
			if _, werr := out.WriteAt(buf[:m], from); werr != nil {
				return werr
			}
			from += int64(m)
		}
		if err != nil {
			if err == io.EOF {
				return nil
			}
			return err
		}
	}
	return nil
}

// CopyTree copies directory src (one level of sub-directories deep is enough
// for data dir + merge dir layouts, but it recurses anyway) to dst.
func CopyTree(src, dst string) error {
	if err := os.MkdirAll(dst, 0755); err != nil {
		return err
	}
	ents, err := os.ReadDir(src)
	if err != nil {
		return err
	}
	for _, e := range ents {
		s := filepath.Join(src, e.Name())
		d := filepath.Join(dst, e.Name())
		if e.IsDir() {
			if err := CopyTree(s, d); err != nil {
				return err
			}
			continue
		}
		if err := CopySparse(s, d); err != nil {
			if os.IsNotExist(err) {
				continue
			}
			return err
		}
	}
	return nil
}

// ReadLogical reads the first n bytes of path (n < 0: the whole file, but for a
// sparse pre-extended file only up to the end of its last data extent).
func ReadLogical(path string, n int64) ([]byte, error) {
	f, err := os.Open(path)
	if err != nil {
		return nil, err
	}
	defer f.Close()
	st, err := f.Stat()
	if err != nil {
		return nil, err
	}
	size := st.Size()
	if n >= 0 && n < size {
		size = n
	} else if n < 0 && size >= 64<<20 {
		// find the end of the last data extent
		end := int64(0)
		off := int64(0)
		fd := int(f.Fd())
		for off < size {
			d, err := syscall.Seek(fd, off, seekData)
			if err != nil {
				break
			}
			h, err := syscall.Seek(fd, d, seekHole)
			if err != nil {
				h = size
			}
			end = h
			off = h
		}
		size = end
	}
	buf := make([]byte, size)
	_, err = io.ReadFull(io.NewSectionReader(f, 0, size), buf)
	return buf, err
}
