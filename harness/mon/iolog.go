// Package mon contains the runtime monitors that sit behind the vhook call
// sites of the engine: the I/O event log with per-file written/durable
// accounting, crash-image construction, and the pause scheduler.
package mon

import (
	"os"
	"path/filepath"
	"strings"
	"sync"

	"github.com/XiXi-2024/xixi-kv/vhook"
)

type Event struct {
	Seq   uint64 `json:"seq"`
	Kind  string `json:"kind"` // io.* | fs.* | point | api.call | api.return
	Path  string `json:"path,omitempty"`
	Path2 string `json:"path2,omitempty"`
	Off   int64  `json:"off,omitempty"` // file offset at which a write lands / logical size
	N     int    `json:"n,omitempty"`
	Name  string `json:"name,omitempty"`
	Op    int    `json:"op,omitempty"` // index of the API call in flight (-1 none)
}

type FileState struct {
	Path    string
	Written int64 // logical end: bytes handed to write so far (incl. bytes present at first open)
	Durable int64 // value of Written at the start of the last completed sync
	MMap    bool
	Open    int
	syncAt  int64
	Created bool // first seen as non-existing
}

// IOLog implements vhook.Handler.
type IOLog struct {
	mu     sync.Mutex
	seq    uint64
	files  map[string]*FileState
	Record bool
	Events []Event
	CurOp  int
	Counts map[string]int64
	// OnEvent is called synchronously for every event, after the monitor's own
	// state was updated, with the engine stopped at the hook. buf is the write
	// buffer for io.write (read-only).
	OnEvent func(ev Event, buf []byte)
	// LastWrite remembers where the most recent write landed.
	LastWritePath string
	LastWriteOff  int64
	LastWriteN    int
	// Track: directory whose most recently opened/written *.data file is taken
	// as the active file (ActiveEnd).
	Track      string
	activePath string
}

// ActiveEnd returns the logical end offset of the tracked directory's active
// data file as observed from the event stream (-1 when unknown).
func (l *IOLog) ActiveEnd() int64 {
	l.mu.Lock()
	defer l.mu.Unlock()
	if fs := l.files[l.activePath]; fs != nil {
		return fs.Written
	}
	return -1
}

func (l *IOLog) ActivePath() string {
	l.mu.Lock()
	defer l.mu.Unlock()
	return l.activePath
}

func NewIOLog() *IOLog {
	return &IOLog{files: map[string]*FileState{}, Counts: map[string]int64{}, CurOp: -1}
}

func (l *IOLog) Install() func() {
	old := vhook.Set(l)
	return func() { vhook.Set(old) }
}

func (l *IOLog) File(path string) *FileState {
	l.mu.Lock()
	defer l.mu.Unlock()
	return l.files[path]
}

// Files returns a copy of the per-file states.
func (l *IOLog) Files() map[string]FileState {
	l.mu.Lock()
	defer l.mu.Unlock()
	out := make(map[string]FileState, len(l.files))
	for k, v := range l.files {
		out[k] = *v
	}
	return out
}

// Forget drops state of files under dir (used when a directory is recreated).
func (l *IOLog) Forget(prefix string) {
	l.mu.Lock()
	defer l.mu.Unlock()
	for k := range l.files {
		if strings.HasPrefix(k, prefix) {
			delete(l.files, k)
		}
	}
}

func (l *IOLog) emit(ev Event, buf []byte) {
	l.seq++
	ev.Seq = l.seq
	ev.Op = l.CurOp
	l.Counts[ev.Kind]++
	if l.Record {
		l.Events = append(l.Events, ev)
	}
	cb := l.OnEvent
	l.mu.Unlock()
	if cb != nil {
		cb(ev, buf)
	}
	l.mu.Lock()
}

func (l *IOLog) IO(kind string, path string, off int64, n int, buf []byte) {
	l.mu.Lock()
	defer l.mu.Unlock()
	fs := l.files[path]
	ev := Event{Kind: "io." + kind, Path: path, Off: off, N: n}
	if (kind == "open" || kind == "write") && l.Track != "" && strings.HasSuffix(path, ".data") && filepath.Dir(path) == l.Track {
		l.activePath = path
	}
	switch kind {
	case "open":
		if fs == nil {
			fs = &FileState{Path: path, MMap: n == 1}
			if st, err := os.Stat(path); err == nil {
				fs.Written = st.Size()
				fs.Durable = st.Size()
			} else {
				fs.Created = true
				ev.Name = "created"
			}
			l.files[path] = fs
		}
		fs.MMap = n == 1
		fs.Open++
		ev.Off = fs.Written
	case "write":
		if fs == nil {
			fs = &FileState{Path: path}
			l.files[path] = fs
		}
		if off >= 0 {
			// mmap reports its logical size; trust but keep in step
			fs.Written = off
		}
		ev.Off = fs.Written
		l.LastWritePath, l.LastWriteOff, l.LastWriteN = path, fs.Written, n
	case "writeDone":
		if fs != nil {
			fs.Written += int64(n)
			ev.Off = fs.Written
		}
	case "sync":
		if fs != nil {
			fs.syncAt = fs.Written
			ev.Off = fs.Written
		}
	case "syncDone":
		if fs != nil {
			if fs.syncAt > fs.Durable {
				fs.Durable = fs.syncAt
			}
			ev.Off = fs.Written
		}
	case "truncate":
		if fs != nil && off >= 0 {
			// the logical size is cut back (recovery of a torn tail) or confirmed (mmap shrink)
			fs.Written = off
			if fs.Durable > off {
				fs.Durable = off
			}
		}
	case "close":
		if fs != nil {
			fs.Open--
			ev.Off = fs.Written
		}
	}
	l.emit(ev, buf)
}

func (l *IOLog) FS(kind string, a string, b string) {
	l.mu.Lock()
	defer l.mu.Unlock()
	switch kind {
	case "rename":
		if fs := l.files[a]; fs != nil {
			delete(l.files, a)
			fs.Path = b
			l.files[b] = fs
		}
	case "remove":
		delete(l.files, a)
	case "removeall":
		for k := range l.files {
			if strings.HasPrefix(k, a+string(filepath.Separator)) {
				delete(l.files, k)
			}
		}
	}
	l.emit(Event{Kind: "fs." + kind, Path: a, Path2: b}, nil)
}

func (l *IOLog) Point(name string) {
	l.mu.Lock()
	defer l.mu.Unlock()
	l.emit(Event{Kind: "point", Name: name}, nil)
}

// Mark records a harness-side marker (api.call / api.return) in the same log.
func (l *IOLog) Mark(kind, name string, op int) {
	l.mu.Lock()
	defer l.mu.Unlock()
	if kind == "api.call" {
		l.CurOp = op
	}
	l.emit(Event{Kind: kind, Name: name}, nil)
	if kind == "api.return" {
		l.CurOp = -1
	}
}

func (l *IOLog) Seq() uint64 {
	l.mu.Lock()
	defer l.mu.Unlock()
	return l.seq
}

func (l *IOLog) CountsCopy() map[string]int64 {
	l.mu.Lock()
	defer l.mu.Unlock()
	out := map[string]int64{}
	for k, v := range l.Counts {
		out[k] = v
	}
	return out
}
