package main

import (
	"fmt"
	"os"

	"verif/harness/core"
	_ "verif/harness/props"
)

func main() {
	if len(os.Args) < 2 {
		fmt.Fprintln(os.Stderr, "usage: vh run <Cxx> <quick|thorough> | worker ... | replay <file> | list")
		os.Exit(2)
	}
	switch os.Args[1] {
	case "run":
		if len(os.Args) < 4 {
			os.Exit(2)
		}
		os.Exit(core.Drive(os.Args[2], os.Args[3]))
	case "worker":
		os.Exit(core.WorkerMain(os.Args[2:]))
	case "replay":
		os.Exit(core.ReplayMain(os.Args[2]))
	case "list":
		for _, id := range core.AllIDs() {
			fmt.Println(id)
		}
	default:
		if f, ok := core.Commands[os.Args[1]]; ok {
			os.Exit(f(os.Args[2:]))
		}
		fmt.Fprintln(os.Stderr, "unknown command", os.Args[1])
		os.Exit(2)
	}
}
