package props

import (
	"bufio"
	"encoding/json"
	"fmt"
	"os"
	"os/exec"
	"path/filepath"
	"regexp"
	"strconv"
	"strings"

	"verif/harness/core"
	"verif/harness/mon"
)

// Cross-check of the C13 instrumentation against the kernel's view: the same
// workload is run in a child under strace, and per data file the bytes written
// and the number of fsync calls seen by strace must equal what the hook log says.
// This is what keeps the policy checker from merely checking its own hooks: a
// change that removes the fsync inside FileIO.Sync (below the hook) or writes
// around the hooks shows up here.

func init() { core.Commands["c13trace"] = c13TraceChild }

type traceReport struct {
	Written map[string]int64 `json:"written"` // bytes handed to write per file (hook log)
	Syncs   map[string]int64 `json:"syncs"`   // completed sync events per file (hook log)
	Err     string           `json:"err,omitempty"`
}

// c13TraceChild: vh c13trace <dir> <seed> <sync> <bps> <io>
func c13TraceChild(args []string) int {
	dir := args[0]
	seed, _ := strconv.ParseUint(args[1], 10, 64)
	sm, _ := strconv.Atoi(args[2])
	bps, _ := strconv.Atoi(args[3])
	iot := 0
	if len(args) > 4 {
		iot, _ = strconv.Atoi(args[4])
	}
	rep := traceReport{Written: map[string]int64{}, Syncs: map[string]int64{}}
	io := mon.NewIOLog()
	io.Track = dir
	io.OnEvent = func(ev mon.Event, buf []byte) {
		if filepath.Dir(ev.Path) != dir {
			return
		}
		switch ev.Kind {
		case "io.write":
			rep.Written[filepath.Base(ev.Path)] += int64(ev.N)
		case "io.syncDone":
			rep.Syncs[filepath.Base(ev.Path)]++
		}
	}
	defer io.Install()()
	cfg := core.Config{IndexType: 3, ShardNum: 4, FileIO: byte(iot), DataFileSize: 16 << 10, Sync: byte(sm), BytesPerSync: uint(bps)}
	res := core.Result{}
	s := core.NewSession(dir, cfg, &res)
	s.IO = io
	r := core.NewRng(seed)
	g := &core.Gen{R: r, Keys: core.GenKeys(r, 5), Cfg: cfg, EndOff: io.ActiveEnd, MaxVal: 20 << 10, NoMerge: true}
	if !s.Open() {
		rep.Err = "open failed"
	} else {
		for i := 0; i < 120 && !s.Dead; i++ {
			s.Exec(g.Next())
			if i%25 == 24 && s.DB != nil {
				// a backup in the middle: under mmap it flushes, unmaps and shrinks every file
				bdir := dir + fmt.Sprintf("-bk%d", i)
				if err := s.DB.Backup(bdir); err != nil {
					rep.Err = "backup: " + err.Error()
				}
				os.RemoveAll(bdir)
				s.Exec(core.Op{Kind: "sync"})
			}
		}
		if s.DB != nil {
			s.Close()
		}
		if res.Verdict == "violated" {
			rep.Err = fmt.Sprint(res.Violations[0].Msg)
		}
	}
	b, _ := json.Marshal(rep)
	fmt.Println("TRACE-REPORT " + string(b))
	return 0
}

var (
	stMmap    = regexp.MustCompile(`^(\d+)\s+mmap\(.*MAP_SHARED, (\d+)<([^>]*)>, \S+\)\s+=\s+(0x[0-9a-f]+)`)
	stMsync   = regexp.MustCompile(`^(\d+)\s+msync\((0x[0-9a-f]+), .*\)\s+=\s+(-?\d+)`)
	stMmapU   = regexp.MustCompile(`^(\d+)\s+mmap\(.*MAP_SHARED, (\d+)<([^>]*)>, \S+ <unfinished`)
	stMmapR   = regexp.MustCompile(`^(\d+)\s+<\.\.\. mmap resumed>\)\s+=\s+(0x[0-9a-f]+)`)
	stMsyncU  = regexp.MustCompile(`^(\d+)\s+msync\((0x[0-9a-f]+), .*<unfinished`)
	stMsyncR  = regexp.MustCompile(`^(\d+)\s+<\.\.\. msync resumed>\)\s+=\s+(-?\d+)`)
	stMunmap  = regexp.MustCompile(`^(\d+)\s+munmap\((0x[0-9a-f]+),`)
	stLine    = regexp.MustCompile(`^(\d+)\s+(write|fsync|fdatasync)\((\d+)<([^>]*)>(.*)$`)
	stResumed = regexp.MustCompile(`^(\d+)\s+<\.\.\. (write|fsync|fdatasync) resumed>.*=\s+(-?\d+)`)
	stRet     = regexp.MustCompile(`=\s+(-?\d+)(?:\s|$)[^=]*$`)
)

// runStraceCase runs the child under strace and compares.
func runStraceCase(c core.Case, w *core.Worker, syncMode, bps int) core.Result {
	iot := int(c.Seed % 2) // half of the cross-checks run on the mmap back-end
	res := core.Result{}
	dir := w.Dir("tr")
	out := filepath.Join(w.Root(), "strace.out")
	exe, _ := os.Executable()
	if _, err := exec.LookPath("strace"); err != nil {
		res.Verdict = "inconclusive"
		res.Note = "strace not available"
		return res
	}
	cmd := exec.Command("strace", "-f", "-y", "-s", "0", "-e", "trace=write,fsync,fdatasync,mmap,munmap,msync", "-o", out,
		exe, "c13trace", dir, fmt.Sprint(c.Seed), fmt.Sprint(syncMode), fmt.Sprint(bps), fmt.Sprint(iot))
	cmd.Env = append(os.Environ(), "GORACE=halt_on_error=0")
	stdout, err := cmd.Output()
	if err != nil {
		res.Verdict = "inconclusive"
		res.Note = "strace run failed: " + err.Error()
		return res
	}
	var rep traceReport
	for _, l := range strings.Split(string(stdout), "\n") {
		if strings.HasPrefix(l, "TRACE-REPORT ") {
			json.Unmarshal([]byte(l[13:]), &rep)
		}
	}
	if rep.Written == nil || rep.Err != "" {
		res.Verdict = "inconclusive"
		res.Note = "trace child: " + rep.Err
		return res
	}
	// parse strace
	kWritten := map[string]int64{}
	kSyncs := map[string]int64{}
	type pend struct{ call, path string }
	pending := map[string]pend{}
	f, err := os.Open(out)
	if err != nil {
		res.Verdict = "inconclusive"
		res.Note = err.Error()
		return res
	}
	defer f.Close()
	sc := bufio.NewScanner(f)
	sc.Buffer(make([]byte, 1<<20), 16<<20)
	account := func(call, path string, ret int64) {
		if filepath.Dir(path) != dir || ret < 0 {
			return
		}
		if call == "write" {
			kWritten[filepath.Base(path)] += ret
		} else if ret == 0 {
			kSyncs[filepath.Base(path)]++
		}
	}
	mapped := map[string]string{} // address -> path of a shared file mapping
	pendMmap := map[string]string{}
	pendMsync := map[string]string{}
	for sc.Scan() {
		l := sc.Text()
		if m := stMmap.FindStringSubmatch(l); m != nil {
			mapped[m[4]] = m[3]
			continue
		}
		if m := stMsync.FindStringSubmatch(l); m != nil {
			if p, ok := mapped[m[2]]; ok && m[3] == "0" && filepath.Dir(p) == dir {
				kSyncs[filepath.Base(p)]++
			}
			continue
		}
		if m := stMmapU.FindStringSubmatch(l); m != nil {
			pendMmap[m[1]] = m[3]
			continue
		}
		if m := stMmapR.FindStringSubmatch(l); m != nil {
			if p, ok := pendMmap[m[1]]; ok {
				mapped[m[2]] = p
				delete(pendMmap, m[1])
			}
			continue
		}
		if m := stMsyncU.FindStringSubmatch(l); m != nil {
			pendMsync[m[1]] = m[2]
			continue
		}
		if m := stMsyncR.FindStringSubmatch(l); m != nil {
			if a, ok := pendMsync[m[1]]; ok {
				if p, ok2 := mapped[a]; ok2 && m[2] == "0" && filepath.Dir(p) == dir {
					kSyncs[filepath.Base(p)]++
				}
				delete(pendMsync, m[1])
			}
			continue
		}
		if m := stMunmap.FindStringSubmatch(l); m != nil {
			delete(mapped, m[2])
			continue
		}
		if m := stLine.FindStringSubmatch(l); m != nil {
			if strings.Contains(m[5], "<unfinished") {
				pending[m[1]] = pend{m[2], m[4]}
				continue
			}
			if r := stRet.FindStringSubmatch(m[5]); r != nil {
				n, _ := strconv.ParseInt(r[1], 10, 64)
				account(m[2], m[4], n)
			}
			continue
		}
		if m := stResumed.FindStringSubmatch(l); m != nil {
			if p, ok := pending[m[1]]; ok && p.call == m[2] {
				n, _ := strconv.ParseInt(m[3], 10, 64)
				account(p.call, p.path, n)
				delete(pending, m[1])
			}
		}
	}
	res.Add("strace_runs", 1)
	if iot == 1 {
		res.Add("strace_runs_mmap", 1)
	}
	files := map[string]bool{}
	for k := range rep.Written {
		files[k] = true
	}
	for k := range kWritten {
		files[k] = true
	}
	for k := range rep.Syncs {
		files[k] = true
	}
	for k := range kSyncs {
		files[k] = true
	}
	for name := range files {
		res.Add("strace_files_compared", 1)
		res.Add("strace_write_bytes", kWritten[name])
		res.Add("strace_fsyncs", kSyncs[name])
		if iot == 0 && kWritten[name] != rep.Written[name] {
			res.Violate(fmt.Sprintf("instrumentation cross-check: %s: the kernel saw %d bytes written, the hook log says %d", name, kWritten[name], rep.Written[name]),
				map[string]string{"class": "sync-policy", "rule": "strace-bytes"}, map[string]any{"hook": rep, "strace_written": kWritten, "strace_fsyncs": kSyncs})
			break
		}
		if kSyncs[name] > rep.Syncs[name] {
			// more flushes than the hooks report are harmless for the policy (and keep the
			// parser's blind spots from becoming alarms); fewer are what matters
			res.Add("strace_extra_kernel_syncs", kSyncs[name]-rep.Syncs[name])
		}
		if kSyncs[name] < rep.Syncs[name] {
			res.Violate(fmt.Sprintf("instrumentation cross-check (io %d): %s: the kernel saw %d successful fsync/msync calls, the hook log has %d completed sync events", iot, name, kSyncs[name], rep.Syncs[name]),
				map[string]string{"class": "sync-policy", "rule": "strace-fsync"}, map[string]any{"hook": rep, "strace_written": kWritten, "strace_fsyncs": kSyncs})
			break
		}
	}
	res.Nontrivial = len(files) >= 2
	res.Hash = core.HashBytes([]byte(fmt.Sprint("strace", c.Seed, syncMode, bps)))
	res.Sample = map[string]any{"kind": "strace cross-check", "files": len(files), "hook_written": rep.Written, "strace_written": kWritten, "hook_syncs": rep.Syncs, "strace_fsyncs": kSyncs}
	os.Remove(out)
	return res
}
