package props

import (
	"bytes"
	"fmt"
	"github.com/XiXi-2024/xixi-kv/vhook"
	"os"
	"path/filepath"
	"sync/atomic"
	"time"

	kv "github.com/XiXi-2024/xixi-kv"
	"verif/harness/core"
	"verif/harness/mon"
	"verif/harness/vfmt"
)

// C20 — a backup taken at any time opens to the state at the time of the backup.
type c20 struct{}

func init() { core.Register(c20{}) }

func (c20) ID() string    { return "C20" }
func (c20) Level() string { return "exploration" }
func (c20) Rule() string {
	return "cases = generated histories (rotated files, batches, values whose last bytes are zero, tombstones of keys ending in 0x00, adopted merges so that a hint file is in the directory, un-adopted merge directories) under both I/O types (every eighth case with the relative DirPath data, whose text re-occurs in every data-file name) with 1..5 Backup calls interleaved with continued writing (in every third case all backups go into the SAME directory, which then already holds the previous backup, with merges adopted in between so that source files shrink; every sixth case first fills many files with uniformly sized records, backs up between a finished Merge and its adoption and again after the adoption, when rewritten files have replaced originals of the same byte size); at each Backup the model is snapshotted; the copy is opened WHILE the source is still open (it must not carry the lock), dumped against the snapshot, written to and restarted (must not affect the source), and closed; the source then continues, deliberately with a value larger than the space left on the active file's last 4 KiB page, a multi-block value, enough data to rotate, and a restart, and is dumped against the model after each. In every fourth case (thorough: every 17th) a writer goroutine puts a numbered sequence of keys while 30 (mapped I/O: 4) further backups are taken: each must open to a prefix of that sequence between what was acknowledged at the call and what was issued at the return. Every case runs in a worker process: the death of the worker (SIGBUS on a truncated mapping) is a violation attributed to the open case. Non-trivial: >=2 backups, >=1 taken with >=3 data files and >=1 after an adopted merge; distinct = hash of (config, op list)"
}
func (c20) Assumptions() []string {
	return []string{"process death is attributed through the worker journal", "the copy is opened with the source's configuration and with the other I/O type alternately"}
}
func (c20) Required() []string {
	return []string{"backups", "backup_dumps_compared", "copies_written_to", "source_large_write_after_backup", "backups_after_adopted_merge", "restarts"}
}

func (c20) Cases(tier string, seed uint64) []core.Case {
	n := 96
	if tier == "thorough" {
		n = 30000
	}
	r := core.NewRng(core.Mix(seed, 0xC20))
	var out []core.Case
	for i := 0; i < n; i++ {
		cfg := core.RandConfig(r)
		cfg.IndexType = core.IndexTypes[i%3]
		cfg.FileIO = byte((i / 3) % 2)
		cfg.DataFileSize = []int64{8 << 10, 40 << 10, 64 << 10, 1 << 20}[r.Intn(4)]
		if i%6 == 5 {
			cfg.DataFileSize = 8 << 10
			cfg.FileIO = byte((i / 6) % 2) // both back-ends (the mapped one touches every file at Open)
		}
		conc := 0 // backups concurrent with a writer: every fourth case (thorough: every 17th)
		if (tier != "thorough" && i%4 == 1) || i%17 == 1 {
			conc = 1
		}
		out = append(out, core.Case{Index: i, ID: fmt.Sprintf("c20-%05d", i), Seed: r.U64(), Data: seqCase{Cfg: cfg, NOps: r.Range(30, 150), NKeys: r.Range(3, 9), Flag: conc}})
	}
	return out
}

func (c20) Run(c core.Case, w *core.Worker) core.Result {
	sc := c.Data.(seqCase)
	res := core.Result{}
	root := w.Dir("root")
	dir := filepath.Join(root, "db")
	if c.Index%8 == 3 {
		root = w.Dir(core.HostileName(c.Index / 8))
		dir = filepath.Join(root, core.HostileName(c.Index/8+3))
		res.Add("cases_with_metacharacters_in_the_path", 1)
	}
	if c.Index%8 == 7 {
		// a relative data directory whose name re-occurs inside the data-file names ("data")
		if old, err := os.Getwd(); err == nil && os.MkdirAll(root, 0755) == nil && os.Chdir(root) == nil {
			defer os.Chdir(old)
			root, dir = ".", "data"
			res.Add("cases_with_relative_dirpath", 1)
		}
	}
	io := mon.NewIOLog()
	io.Track = dir
	defer io.Install()()
	r := core.NewRng(c.Seed)
	s := core.NewSession(dir, sc.Cfg, &res)
	s.IO = io
	keys := core.GenKeys(r, sc.NKeys)
	keys = append(keys, []byte("zero\x00"), []byte{'q', 0, 0})
	g := &core.Gen{R: r, Keys: keys, Cfg: sc.Cfg, EndOff: io.ActiveEnd, MaxVal: 70 << 10, NoRestart: true}
	feat := func(kind string) map[string]string {
		return map[string]string{"class": "backup", "kind": kind, "io": fmt.Sprint(sc.Cfg.FileIO)}
	}
	fail := func(kind, msg string) {
		res.Violate(fmt.Sprintf("step %d: %s", s.Step, msg), feat(kind), map[string]any{"config": sc.Cfg, "ops_tail": lastN(s.Log, 30)})
		s.Dead = true
	}
	if !s.Open() {
		return res
	}
	nb := r.Range(1, 5)
	backupAt := map[int]bool{}
	for i := 0; i < nb; i++ {
		backupAt[r.Range(3, sc.NOps)] = true
	}
	adopted := false
	sameDir := c.Index%3 == 2
	zeroVal := func(k []byte) core.Op {
		// value ending in zero bytes: vseed 0 pattern is not zero, so craft through a batch of raw put
		if r.Chance(1, 2) {
			return core.Op{Kind: "put", Key: k, VLen: r.Range(1, 200), VSeed: 0} // all-zero value
		}
		return core.Op{Kind: "put", Key: k, VLen: 0}
	}
	doBackup := func(n int) {
		snap := s.M.Clone()
		bdir := filepath.Join(root, fmt.Sprintf("backup%d", n), "db")
		if sameDir {
			// repeated backups into the directory that already holds the previous backup
			bdir = filepath.Join(root, "backup-same", "db")
			if n > 1 {
				res.Add("backups_over_previous_backup", 1)
			}
		}
		var err error
		pv, st := core.Safe(func() { err = s.DB.Backup(bdir) })
		s.Step++
		s.Log = append(s.Log, fmt.Sprintf("backup#%d", n))
		if pv != nil {
			res.Violate(fmt.Sprintf("Backup panicked: %v", pv), feat("panic"), st)
			s.Dead, s.Panicked = true, true
			return
		}
		if err != nil {
			fail("backup-error", "Backup returned "+err.Error())
			return
		}
		res.Add("backups", 1)
		if len(core.DataFiles(dir)) >= 3 {
			res.Add("backups_with_3_files", 1)
		}
		if adopted {
			res.Add("backups_after_adopted_merge", 1)
		}
		if _, err := os.Stat(filepath.Join(bdir, ".lock")); err == nil {
			res.Add("lock_file_copied", 1)
		}
		// open the copy while the source is open
		ccfg := s.Cfg
		if n%2 == 1 {
			ccfg.FileIO = 1 - ccfg.FileIO
		}
		var bdb *kv.DB
		pv, st = core.Safe(func() { bdb, err = kv.Open(ccfg.Options(bdir)) })
		if pv != nil {
			res.Violate(fmt.Sprintf("opening the backup panicked: %v", pv), feat("panic"), st)
			s.Dead = true
			return
		}
		if err != nil {
			fail("copy-open", "the backup cannot be opened while the source is open: "+err.Error())
			return
		}
		d, pv, st := core.DumpDB(bdb, snap.Ever)
		if pv != nil {
			res.Violate(fmt.Sprintf("dump of the backup panicked: %v", pv), feat("panic"), st)
			s.Dead = true
			return
		}
		res.Add("backup_dumps_compared", 1)
		if diff := d.Diff(snap); diff != "" {
			fail("copy-state", "the opened backup differs from the source's state at Backup time: "+diff)
			bdb.Close()
			return
		}
		ck, cv := []byte("~copy-only"), core.FillValue(r.U64(), r.Range(1, 5000))
		if sameDir {
			// the copy is left as Backup wrote it (the next Backup goes into the same directory)
			if err := bdb.Close(); err != nil {
				fail("copy-close", "Close of the backup failed: "+err.Error())
				return
			}
		} else {
			// write to the copy and restart it: must not affect the source
			if err := bdb.Put(ck, cv); err != nil {
				fail("copy-write", "Put on the backup failed: "+err.Error())
				bdb.Close()
				return
			}
			bdb.Delete(keys[0])
			if err := bdb.Close(); err != nil {
				fail("copy-close", "Close of the backup failed: "+err.Error())
				return
			}
			bdb, err = kv.Open(ccfg.Options(bdir))
			if err != nil {
				fail("copy-open", "the backup cannot be reopened: "+err.Error())
				return
			}
			snap.Put(ck, cv)
			snap.Delete(keys[0])
			d, _, _ = core.DumpDB(bdb, snap.Ever)
			if diff := d.Diff(snap); diff != "" {
				fail("copy-state", "the backup after its own writes and a restart: "+diff)
				bdb.Close()
				return
			}
			bdb.Close()
			res.Add("copies_written_to", 1)
		}
		if !s.CheckGet(ck) { // must be absent in the source
			return
		}
		// the source continues: first write after an mmap shrink
		end := io.ActiveEnd()
		room := 4096 - int(end%4096)
		s.Exec(core.Op{Kind: "put", Key: g.Key(), VLen: room + r.Range(1, 3000), VSeed: r.U64()})
		res.Add("source_large_write_after_backup", 1)
		if !s.Dead {
			s.Exec(core.Op{Kind: "put", Key: g.Key(), VLen: vfmt.Block + r.Range(1, 40000), VSeed: r.U64()})
		}
		if !s.Dead {
			s.CheckDump("after-backup-writes")
		}
		if !s.Dead && r.Chance(1, 2) {
			s.Exec(core.Op{Kind: "restart"})
		}
	}
	nbk := 0
	if c.Index%6 == 5 && sc.Cfg.DataFileSize == 8<<10 {
		// uniformly sized records filling many files, every key written twice; a finished but
		// not yet adopted Merge; Backup; the restart that adopts (rewritten files replace
		// originals of the SAME byte size, by rename, keeping their older mtime); Backup into
		// the same directory again
		for round := 0; round < 2 && !s.Dead; round++ {
			for i := 0; i < 300 && !s.Dead; i++ {
				s.Exec(core.Op{Kind: "put", Key: []byte(fmt.Sprintf("u%04d", i)), VLen: 100, VSeed: r.U64() | 1})
			}
		}
		if !s.Dead {
			s.Exec(core.Op{Kind: "merge"})
		}
		if !s.Dead {
			nbk++
			doBackup(nbk)
		}
		if !s.Dead {
			s.Exec(core.Op{Kind: "restart"})
			adopted = true
		}
		if !s.Dead {
			nbk++
			doBackup(nbk)
			res.Add("backups_around_the_adoption_of_equal_sized_files", 1)
		}
	}
	for i := 0; i < sc.NOps && !s.Dead; i++ {
		if backupAt[i] {
			nbk++
			doBackup(nbk)
			continue
		}
		op := g.Next()
		if r.Chance(1, 12) {
			op = zeroVal(g.Key())
		}
		if !s.Exec(op) {
			break
		}
		if op.Kind == "merge" && !s.Dead && r.Chance(2, 3) {
			s.Exec(core.Op{Kind: "restart"})
			adopted = true
		}
	}
	if !s.Dead {
		nbk++
		doBackup(nbk)
	}
	if sc.Flag == 1 && sc.Cfg.DataFileSize <= 64<<10 && !s.Dead && s.DB != nil {
		// Backup WHILE a writer runs: one goroutine puts seq00000, seq00001, ... (values sized so
		// that the active file rotates every few puts); every backup taken meanwhile must open
		// to a PREFIX of that sequence no shorter than what was acknowledged when Backup was
		// called and no longer than what had been issued when it returned
		db := s.DB
		var acked, issued atomic.Int64
		stop, done := make(chan struct{}), make(chan struct{})
		wseed := r.U64()
		lim := int(sc.Cfg.DataFileSize)
		if lim > 8<<10 {
			lim = 8 << 10
		}
		seqVal := func(i int) []byte {
			return core.FillValue(core.Mix(wseed, uint64(i))|1, 50+int(core.Mix(wseed, uint64(i)+7)%uint64(lim/3)))
		}
		var werr error
		go func() {
			defer close(done)
			for i := 0; i < 5000; i++ {
				select {
				case <-stop:
					return
				default:
				}
				issued.Store(int64(i + 1))
				if werr = db.Put([]byte(fmt.Sprintf("seq%05d", i)), seqVal(i)); werr != nil {
					return
				}
				acked.Store(int64(i + 1))
			}
		}()
		nb := 30
		if sc.Cfg.FileIO == 1 {
			nb = 4
		}
		// widen whatever window Backup may have around its directory copy: the hook event
		// that precedes the copy is delayed (outside the monitor's own lock)
		prevH := vhook.Set(nil)
		vhook.Set(delayCopy{prevH})
		defer vhook.Set(prevH)
		for b := 0; b < nb && res.Verdict != "violated"; b++ {
			bdir := filepath.Join(root, fmt.Sprintf("conc-backup%d", b), "db")
			a := acked.Load()
			var err error
			pv, st := core.Safe(func() { err = db.Backup(bdir) })
			z := issued.Load()
			if pv != nil || err != nil {
				res.Violate(fmt.Sprintf("Backup concurrent with a writer failed: %v %v", pv, err), feat("concurrent"), st)
				break
			}
			bcfg := s.Cfg
			bcfg.FileIO = 0
			bdb, err := kv.Open(bcfg.Options(bdir))
			if err != nil {
				fail("concurrent", "a backup taken while a writer was running cannot be opened: "+err.Error())
				break
			}
			have := map[int]bool{}
			maxI := -1
			for _, k := range bdb.ListKeys() {
				var i int
				if n, _ := fmt.Sscanf(string(k), "seq%05d", &i); n == 1 && len(k) == 8 {
					have[i] = true
					if i > maxI {
						maxI = i
					}
				}
			}
			m := len(have)
			res.Add("backups_concurrent_with_a_writer", 1)
			switch {
			case maxI+1 != m:
				for i := 0; i <= maxI; i++ {
					if !have[i] {
						fail("concurrent", fmt.Sprintf("a backup taken while a writer was running holds seq%05d but lacks the earlier seq%05d (%d keys of the sequence): not a state the source ever had", maxI, i, m))
						break
					}
				}
			case int64(m) < a || int64(m) > z:
				fail("concurrent", fmt.Sprintf("a backup taken while a writer was running holds %d keys of the sequence; %d were acknowledged when Backup was called and %d issued when it returned", m, a, z))
			default:
				for i := 0; i < m && i < 300; i++ {
					j := (i * 7919) % m
					if v, err := bdb.Get([]byte(fmt.Sprintf("seq%05d", j))); err != nil || !bytes.Equal(v, seqVal(j)) {
						fail("concurrent", fmt.Sprintf("a backup taken while a writer was running: Get(seq%05d) = %d bytes, err=%v", j, len(v), err))
						break
					}
				}
			}
			bdb.Close()
			os.RemoveAll(filepath.Dir(bdir))
		}
		close(stop)
		<-done
		if werr != nil {
			fail("concurrent", "the writer running during the backups failed: "+werr.Error())
		}
		for i := 0; i < int(acked.Load()); i++ {
			s.M.Put([]byte(fmt.Sprintf("seq%05d", i)), seqVal(i))
		}
		if n := int(issued.Load()); n > int(acked.Load()) && werr == nil {
			s.M.Put([]byte(fmt.Sprintf("seq%05d", n-1)), seqVal(n-1))
		}
		if !s.Dead {
			s.CheckDump("after the backups concurrent with a writer")
		}
	}
	if !s.Dead {
		s.Exec(core.Op{Kind: "restart"})
	}
	if s.DB != nil {
		s.Close()
	}
	res.Nontrivial = res.Counters["backups"] >= 2 && res.Counters["backups_with_3_files"] > 0
	res.Hash = core.HashBytes([]byte(sc.Cfg.String()), []byte(fmt.Sprint(s.Log)))
	if c.Index < 2 {
		res.Sample = map[string]any{"config": sc.Cfg, "ops": firstN(s.Log, 40), "total_ops": len(s.Log)}
	}
	return res
}

// delayCopy delays the hook event that precedes Backup's directory copy.
type delayCopy struct{ inner vhook.Handler }

func (d delayCopy) IO(kind, path string, off int64, n int, buf []byte) {
	if d.inner != nil {
		d.inner.IO(kind, path, off, n, buf)
	}
}
func (d delayCopy) Point(name string) {
	if d.inner != nil {
		d.inner.Point(name)
	}
}
func (d delayCopy) FS(kind, a, b string) {
	if kind == "copydir" {
		time.Sleep(400 * time.Microsecond)
	}
	if d.inner != nil {
		d.inner.FS(kind, a, b)
	}
}
