package props

import (
	"errors"
	"fmt"
	"os"
	"path/filepath"
	"strings"

	kv "github.com/XiXi-2024/xixi-kv"
	"github.com/XiXi-2024/xixi-kv/vhook"
	"verif/harness/core"
	"verif/harness/mon"
	"verif/harness/vfmt"
)

// crashRun is the crash-image machinery shared by C03, C04 and C07.  It sits
// behind the I/O hooks: at every event, with the engine stopped at the hook,
// it copies the database root (data directory + sibling merge directory),
// derives the images a crash at this instant could leave behind, reopens each
// with the real engine and asks the property-specific oracle whether the
// recovered mapping is admissible.
type crashRun struct {
	w    *core.Worker
	res  *core.Result
	io   *mon.IOLog
	root string // contains db/ and (during merges) db-merge/
	cfg  core.Config
	ever map[string]bool
	r    *core.Rng
	tier string
	prop string

	// oracle state maintained by the workload
	states   []*core.Model // S_0..S_a : state after each acknowledged mutation
	pending  *core.Model   // S_{a+1} while a mutation is in flight, else nil
	mutBytes [][]wrange    // per mutation (1-based index = position in states) the writes it produced
	curMut   int           // index of mutation in flight (len(states)) or 0

	busy        bool
	dirty       bool
	lastDurable string
	nImages     int
	nChecked    int
	nOpened     int
	nCont       int
	contEvery   int  // run a continuation on every n-th successfully recovered image (0 = never)
	contMerge   bool // C07: continuation = deletes + a new Merge
	nContRun    int
	forceCont   bool // the image being checked must be continued whatever the sampling says
	enabled     bool
	// options
	powerLoss   bool
	partial     bool
	maxCuts     int
	maxPartials int
	// only image events for which filter returns true (nil = all)
	filter func(ev mon.Event) bool
	// admissibleOverride replaces the default oracle (C04/C07)
	admissible func(kind string, d *core.Dump, dmin int) (ok bool, matched string)
	log        func() []string
	nested     func(imgRoot string, ev mon.Event) // C07: nested crash during the retry
	// postOpen is called after each successful reopen of an image (round 0/1) and may return a violation text
	postOpen func(img string, round int, wrote bool) string
	preOpen  func(img string)
	evLabel  string
}

type wrange struct {
	path string
	end  int64
}

func (c *crashRun) dbDir() string { return filepath.Join(c.root, "db") }

func mutatingKind(k string) bool {
	switch k {
	case "io.write", "io.open", "io.truncate", "io.map", "io.close", "io.writeDone", "io.closeDone":
		return true
	}
	return strings.HasPrefix(k, "fs.")
}

// onEvent is installed as IOLog.OnEvent.
func (c *crashRun) onEvent(ev mon.Event, buf []byte) {
	if c.busy || !c.enabled {
		return
	}
	c.res.Add(ev.Kind, 1)
	if ev.Kind == "io.write" && c.curMut > 0 && strings.HasPrefix(ev.Path, c.dbDir()) {
		for len(c.mutBytes) <= c.curMut {
			c.mutBytes = append(c.mutBytes, nil)
		}
		c.mutBytes[c.curMut] = append(c.mutBytes[c.curMut], wrange{ev.Path, ev.Off + int64(ev.N)})
	}
	if ev.Kind == "api.call" || ev.Kind == "api.return" {
		return
	}
	if c.filter != nil && !c.filter(ev) {
		if mutatingKind(ev.Kind) {
			c.dirty = true
		}
		return
	}
	dur := c.durableSig()
	if !c.dirty && dur == c.lastDurable && c.nImages > 0 && ev.Kind != "io.write" && ev.Kind != "point" {
		c.res.Add("events_skipped_unchanged", 1)
		if mutatingKind(ev.Kind) {
			c.dirty = true
		}
		return
	}
	c.busy = true
	old := vhook.Set(nil) // image checks must not re-enter the monitor
	c.evLabel = ev.Kind
	if ev.Name != "" {
		c.evLabel += ":" + ev.Name
	}
	c.imagesAt(ev, buf)
	vhook.Set(old)
	c.busy = false
	c.dirty = mutatingKind(ev.Kind)
	c.lastDurable = dur
}

func (c *crashRun) durableSig() string {
	var sb strings.Builder
	for p, f := range c.io.Files() {
		if f.Durable < f.Written {
			fmt.Fprintf(&sb, "%s:%d/%d;", filepath.Base(p), f.Durable, f.Written)
		}
	}
	return sb.String()
}

// dmin = number of leading mutations whose bytes are all durable.
func (c *crashRun) durablePrefix(files map[string]mon.FileState, cut map[string]int64) int {
	d := 0
	for m := 1; m < len(c.states); m++ {
		ok := true
		if m < len(c.mutBytes) {
			for _, wr := range c.mutBytes[m] {
				lim := int64(1 << 62)
				if l, has := cut[wr.path]; has {
					lim = l
				}
				if wr.end > lim {
					ok = false
				}
			}
		}
		if !ok {
			break
		}
		d = m
	}
	return d
}

func (c *crashRun) snapshot() (string, bool) {
	img := c.w.Dir("img")
	if err := mon.CopyTree(c.root, img); err != nil {
		c.res.Violate("harness: image copy failed: "+err.Error(), map[string]string{"class": "harness"}, nil)
		return "", false
	}
	return img, true
}

func (c *crashRun) imagesAt(ev mon.Event, buf []byte) {
	a := len(c.states) - 1
	// 1. process death
	img, ok := c.snapshot()
	if !ok {
		return
	}
	c.nImages++
	c.res.Add("images_process_death", 1)
	c.checkImage(img, "process-death", ev, a, a, "")
	os.RemoveAll(img)
	if c.nested != nil {
		if img2, ok := c.snapshot(); ok {
			c.nested(img2, ev)
			os.RemoveAll(img2)
		}
	}

	files := c.io.Files()
	// 1b. process death inside this write
	if c.partial && ev.Kind == "io.write" && len(buf) > 1 && strings.HasPrefix(ev.Path, c.dbDir()) {
		for _, p := range c.partialPoints(ev.Off, buf) {
			img, ok := c.snapshot()
			if !ok {
				return
			}
			rel, _ := filepath.Rel(c.root, ev.Path)
			f, err := os.OpenFile(filepath.Join(img, rel), os.O_WRONLY, 0644)
			if err == nil {
				f.WriteAt(buf[:p], ev.Off)
				f.Close()
			}
			c.res.Add("images_partial_write", 1)
			c.checkImage(img, "partial-write", ev, a, a, fmt.Sprintf("p=%d/%d", p, len(buf)))
			os.RemoveAll(img)
		}
	}
	// 2. power loss
	if c.powerLoss {
		var tails []mon.FileState
		for p, f := range files {
			if strings.HasPrefix(p, c.dbDir()) && f.Durable < f.Written {
				if _, err := os.Stat(p); err == nil {
					tails = append(tails, f)
				}
			}
		}
		if len(tails) == 0 {
			return
		}
		// (a) each file alone, several lengths
		for _, f := range tails {
			for _, L := range c.cutPoints(f) {
				c.powerImage(ev, files, map[string]int64{f.Path: L}, a)
			}
		}
		// (b) everything unsynced lost at once
		if len(tails) > 1 {
			cut := map[string]int64{}
			for _, f := range tails {
				cut[f.Path] = f.Durable
			}
			c.powerImage(ev, files, cut, a)
			c.res.Add("images_power_loss_multi_file", 1)
		}
	}
}

func (c *crashRun) powerImage(ev mon.Event, files map[string]mon.FileState, cut map[string]int64, a int) {
	img, ok := c.snapshot()
	if !ok {
		return
	}
	desc := ""
	for p, L := range cut {
		f := files[p]
		rel, _ := filepath.Rel(c.root, p)
		ip := filepath.Join(img, rel)
		st, err := os.Stat(ip)
		if err != nil {
			continue
		}
		if f.MMap && st.Size() > f.Written {
			// pre-extended mapping: the lost tail reads as zeros
			fh, err := os.OpenFile(ip, os.O_WRONLY, 0644)
			if err == nil {
				if f.Written > L {
					fh.WriteAt(make([]byte, f.Written-L), L)
				}
				fh.Close()
			}
			desc += fmt.Sprintf("%s zero[%d,%d) ", filepath.Base(p), L, f.Written)
			if L > 0 && L < f.Written && L%vfmt.Block <= 8 {
				// a pre-extended file cut at (or just behind) a block boundary: if the boundary
				// lies inside a multi-block record, recovery has to rewind over chunks that are
				// intact - always keep using such an image
				c.forceCont = true
				c.res.Add("power_loss_images_of_mapped_files_cut_at_a_block_boundary", 1)
			}
		} else {
			os.Truncate(ip, L)
			desc += fmt.Sprintf("%s cut %d->%d ", filepath.Base(p), f.Written, L)
		}
	}
	d := c.durablePrefix(files, cut)
	c.res.Add("images_power_loss", 1)
	c.checkImage(img, "power-loss", ev, d, a, desc)
	c.forceCont = false
	os.RemoveAll(img)
}

// cutPoints chooses the lengths to which an unsynced tail is cut.
func (c *crashRun) cutPoints(f mon.FileState) []int64 {
	lo, hi := f.Durable, f.Written
	set := map[int64]bool{lo: true}
	var must []int64 // block boundaries strictly inside a record: never dropped by the sampling
	add := func(x int64) {
		if x >= lo && x <= hi {
			set[x] = true
		}
	}
	if hi-lo <= 48 {
		for x := lo; x <= hi; x++ {
			add(x)
		}
	} else {
		// record boundaries of the unsynced tail (decoded independently)
		data := make([]byte, hi-lo)
		if fh, err := os.Open(f.Path); err == nil {
			fh.ReadAt(data, lo)
			fh.Close()
			recs, _, _ := vfmt.ScanRaw(data, lo)
			var bounds []int64
			for _, rc := range recs {
				bounds = append(bounds, rc.Start, rc.End)
				for b := (rc.Start/vfmt.Block + 1) * vfmt.Block; b < rc.End && len(must) < 4; b += vfmt.Block {
					must = append(must, b)
				}
			}
			// favour the most recent records and a seed-chosen few of the rest
			for i := len(bounds) - 1; i >= 0 && i >= len(bounds)-6; i-- {
				for _, d := range []int64{-8, -1, 0, 1, 3, 7, 8} {
					add(bounds[i] + d)
				}
			}
			for k := 0; k < 4 && len(bounds) > 0; k++ {
				add(bounds[c.r.Intn(len(bounds))] + int64(c.r.Range(-8, 8)))
			}
		}
		for b := (lo/vfmt.Block + 1) * vfmt.Block; b <= hi; b += vfmt.Block {
			for _, d := range []int64{-8, -7, -1, 0, 1, 7, 8} {
				add(b + d)
			}
		}
		for k := 0; k < 6; k++ {
			add(lo + int64(c.r.Intn(int(hi-lo+1))))
		}
	}
	out := make([]int64, 0, len(set))
	for x := range set {
		out = append(out, x)
	}
	sortI64(out)
	if len(out) > c.maxCuts {
		// keep the extremes and a seed-chosen subset
		keep := []int64{out[0], out[len(out)-1]}
		for _, b := range must {
			if set[b] {
				keep = append(keep, b)
			}
		}
		for len(keep) < c.maxCuts {
			keep = append(keep, out[c.r.Intn(len(out))])
		}
		out = keep
	}
	return out
}

func sortI64(a []int64) {
	for i := 1; i < len(a); i++ {
		for j := i; j > 0 && a[j] < a[j-1]; j-- {
			a[j], a[j-1] = a[j-1], a[j]
		}
	}
}

// partialPoints chooses how many bytes of a write buffer reached the file.
func (c *crashRun) partialPoints(off int64, buf []byte) []int {
	n := len(buf)
	set := map[int]bool{}
	add := func(x int) {
		if x >= 1 && x < n {
			set[x] = true
		}
	}
	recs, _, _ := vfmt.ScanRaw(buf, off)
	for _, rc := range recs {
		for _, d := range []int{-8, -1, 0, 1, 4, 7, 8} {
			add(int(rc.Start-off) + d)
			add(int(rc.End-off) + d)
		}
	}
	for b := (off/vfmt.Block + 1) * vfmt.Block; b < off+int64(n); b += vfmt.Block {
		for _, d := range []int{-8, -1, 0, 1, 6, 7, 8} {
			add(int(b-off) + d)
		}
	}
	for k := 0; k < 6; k++ {
		add(c.r.Range(1, n-1))
	}
	// page granularity (a killed write stops at a page boundary of the copy)
	for pg := (off/4096 + 1) * 4096; pg < off+int64(n); pg += 4096 {
		if c.r.Chance(1, 3) {
			add(int(pg - off))
		}
	}
	out := make([]int, 0, len(set))
	for x := range set {
		out = append(out, x)
	}
	for i := 1; i < len(out); i++ {
		for j := i; j > 0 && out[j] < out[j-1]; j-- {
			out[j], out[j-1] = out[j-1], out[j]
		}
	}
	if len(out) > c.maxPartials {
		keep := []int{}
		for len(keep) < c.maxPartials {
			keep = append(keep, out[c.r.Intn(len(out))])
		}
		out = keep
	}
	return out
}

// defaultAdmissible: S_j for dmin <= j <= a, or the in-flight mutation's state.
func (c *crashRun) defaultAdmissible(d *core.Dump, dmin, a int) (bool, string) {
	if c.pending != nil {
		if d.Diff(c.pending) == "" {
			return true, fmt.Sprintf("S%d(in-flight)", a+1)
		}
	}
	for j := a; j >= dmin; j-- {
		if d.Diff(c.states[j]) == "" {
			return true, fmt.Sprintf("S%d", j)
		}
	}
	return false, ""
}

func (c *crashRun) feats(kind string, ev mon.Event, outcome string) map[string]string {
	return map[string]string{"class": "crash-image", "kind": kind, "io": fmt.Sprint(c.cfg.FileIO), "event": c.evLabel, "outcome": outcome}
}

func (c *crashRun) detail(extra string, d *core.Dump) map[string]any {
	m := map[string]any{"config": c.cfg, "image": extra, "event": c.evLabel, "acked_mutations": len(c.states) - 1, "in_flight": c.pending != nil}
	if c.log != nil {
		l := c.log()
		if len(l) > 40 {
			l = l[len(l)-40:]
		}
		m["ops_before_crash"] = l
	}
	if d != nil {
		m["recovered_keys"] = len(d.Keys)
	}
	return m
}

// checkImage reopens an image twice (and sometimes writes to it) and applies the oracle.
func (c *crashRun) checkImage(img, kind string, ev mon.Event, dmin, a int, extra string) {
	dir := filepath.Join(img, "db")
	opts := c.cfg.Options(dir)
	c.nOpened++
	if c.nOpened%4 == 0 {
		// C02 lets any I/O type reopen a directory; a crash image is no exception
		oc := c.cfg
		oc.FileIO = 1 - oc.FileIO
		opts = oc.Options(dir)
		c.res.Add("images_reopened_with_other_io", 1)
	}
	var matched string
	if c.preOpen != nil {
		c.preOpen(img)
	}
	for round := 0; round < 2; round++ {
		var db *kv.DB
		var err error
		pv, st := core.Safe(func() { db, err = kv.Open(opts) })
		if pv != nil {
			c.res.Violate(fmt.Sprintf("%s image at %s (%s): Open #%d panicked: %v", kind, c.evLabel, extra, round+1, pv),
				c.feats(kind, ev, "open-panic"), map[string]any{"detail": c.detail(extra, nil), "stack": st})
			return
		}
		if err != nil {
			c.res.Violate(fmt.Sprintf("%s image at %s (%s): Open #%d failed: %v", kind, c.evLabel, extra, round+1, err),
				c.feats(kind, ev, "open-error:"+err.Error()), c.detail(extra, nil))
			return
		}
		d, pv, st := core.DumpDB(db, c.ever)
		if pv != nil {
			c.res.Violate(fmt.Sprintf("%s image at %s (%s): dump #%d panicked: %v", kind, c.evLabel, extra, round+1, pv),
				c.feats(kind, ev, "dump-panic"), map[string]any{"detail": c.detail(extra, nil), "stack": st})
			return
		}
		c.res.Add("image_opens", 1)
		if c.postOpen != nil {
			if msg := c.postOpen(img, round, false); msg != "" {
				c.res.Violate(fmt.Sprintf("%s image at %s (%s): after reopen #%d: %s", kind, c.evLabel, extra, round+1, msg),
					c.feats(kind, ev, "adoption-state"), c.detail(extra, d))
				db.Close()
				return
			}
		}
		var ok bool
		var m string
		if c.admissible != nil {
			ok, m = c.admissible(kind, d, dmin)
		} else {
			ok, m = c.defaultAdmissible(d, dmin, a)
		}
		if !ok {
			why := "recovered mapping is not an admissible prefix state"
			if len(c.states) > 0 {
				why += ": vs S_a: " + d.Diff(c.states[a])
				if c.pending != nil {
					why += " | vs in-flight: " + d.Diff(c.pending)
				}
				if dmin < a {
					why += fmt.Sprintf(" | durable prefix d=%d a=%d", dmin, a)
				}
			}
			c.res.Violate(fmt.Sprintf("%s image at %s (%s): reopen #%d: %s", kind, c.evLabel, extra, round+1, why),
				c.feats(kind, ev, "non-prefix"), c.detail(extra, d))
			db.Close()
			return
		}
		if round == 0 {
			matched = m
			c.res.SetAdd("recovered_as", kind+":"+relState(m, a))
		} else if m != matched {
			// a different but admissible state after the second reopen still means recovery is unstable
			if d2 := c.lookup(matched); d2 != nil && d.Diff(d2) != "" {
				c.res.Violate(fmt.Sprintf("%s image at %s (%s): second reopen recovered %s, first %s", kind, c.evLabel, extra, m, matched),
					c.feats(kind, ev, "unstable"), c.detail(extra, d))
				db.Close()
				return
			}
		}
		// the recovered directory must keep accepting writes: checked for every 8th process-death
		// image and for every 2nd image in which recovery had a cut tail to deal with (a
		// fragment left behind there only shows at the restart after the next write)
		// ... in the FIRST session after the crash for every second such image (a clean Close
		// and a second recovery in between may repair what the first recovery left behind),
		// after one clean restart for the others
		c.nChecked++
		due := c.nOpened%4 == 1 || c.nOpened%4 == 2 // nOpened counts images
		if kind != "power-loss" && kind != "partial-write" {
			due = c.nOpened%8 == 1 || c.nOpened%8 == 6
		}
		writeRound := c.nOpened / 2 % 2
		if due && round == writeRound {
			if round == 0 {
				c.res.Add("images_written_in_the_first_session_after_the_crash", 1)
			}
			k, v := []byte("~after-crash"), core.FillValue(uint64(c.nImages), 1+c.nImages%700)
			var perr error
			pv, _ := core.Safe(func() { perr = db.Put(k, v) })
			if pv != nil || perr != nil {
				c.res.Violate(fmt.Sprintf("%s image at %s: Put after recovery failed: %v %v", kind, c.evLabel, pv, perr), c.feats(kind, ev, "write-after-recovery"), c.detail(extra, d))
				db.Close()
				return
			}
			db.Close()
			db2, err := kv.Open(opts)
			if err != nil {
				c.res.Violate(fmt.Sprintf("%s image at %s: reopen after post-recovery Put failed: %v", kind, c.evLabel, err), c.feats(kind, ev, "write-after-recovery"), c.detail(extra, d))
				return
			}
			got, gerr := db2.Get(k)
			want := c.lookup(matched)
			bad := gerr != nil || string(got) != string(v)
			if !bad && want != nil {
				wm := want.Clone()
				wm.Put(k, v)
				d3, _, _ := core.DumpDB(db2, c.ever)
				if diff := d3.Diff(wm); diff != "" {
					bad = true
					gerr = errors.New(diff)
				}
			}
			if bad {
				c.res.Violate(fmt.Sprintf("%s image at %s (%s): state after post-recovery Put + restart is wrong: %v", kind, c.evLabel, extra, gerr), c.feats(kind, ev, "write-after-recovery"), c.detail(extra, d))
			}
			c.res.Add("images_written_after_recovery", 1)
			db2.Close()
			return
		}
		if cerr := db.Close(); cerr != nil {
			c.res.Violate(fmt.Sprintf("%s image at %s: Close after recovery failed: %v", kind, c.evLabel, cerr), c.feats(kind, ev, "close-error"), c.detail(extra, d))
			return
		}
	}
	// life goes on after a recovery: further writes, batches, a clean restart, a second crash
	if m0 := c.lookup(matched); m0 != nil && (c.contEvery > 0 || c.contMerge) {
		c.nCont++
		if c.contMerge {
			if c.nCont%6 == 0 {
				c.mergeContinuation(img, m0, kind, ev, extra)
			}
			return
		}
		every := c.contEvery
		if c.pending != nil {
			every = max(1, every/4) // images taken inside a mutation (unsealed batches) matter most
		}
		if c.nCont%every == 0 || c.forceCont {
			if c.forceCont {
				c.res.Add("continuations_forced_for_block_boundary_cuts", 1)
			}
			c.continuation(img, m0, kind, ev, extra)
		}
	}
}

// continuation: the recovered image keeps being used. After a put, a committed batch and an
// explicit Sync (state M1, durable), one more unsynced put (M2); a clean restart must show M2,
// and a second crash that tears the unsynced put (standard I/O) must show M1. What a crash left
// behind (records of a batch that never got its sealing record, a truncated tail) must stay
// dead whatever is appended after it.
func (c *crashRun) continuation(img string, m0 *core.Model, kind string, ev mon.Event, extra string) {
	dir := filepath.Join(img, "db")
	cfg := c.cfg
	cfg.Sync = 0 // the harness decides what is flushed
	tmp := core.Result{}
	s := core.NewSession(dir, cfg, &tmp)
	s.M = m0.Clone()
	report := func(stage string) bool {
		if tmp.Verdict != "violated" {
			return false
		}
		v := tmp.Violations[0]
		c.res.Violate(fmt.Sprintf("%s image at %s (%s), continued after recovery (%s): %s", kind, c.evLabel, extra, stage, v.Msg),
			c.feats(kind+"+continuation", ev, stage), map[string]any{"detail": c.detail(extra, nil), "continuation_ops": s.Log})
		return true
	}
	if !s.Open() {
		report("open")
		return
	}
	var keys [][]byte
	for k := range c.ever {
		if k != "~after-crash" {
			keys = append(keys, []byte(k))
		}
	}
	if len(keys) == 0 {
		s.Close()
		return
	}
	sortKeys(keys)
	r := c.r
	pick := func() []byte { return keys[r.Intn(len(keys))] }
	c.nContRun++
	if c.nContRun%2 == 0 {
		// the first thing done with the recovered directory is a Merge (adopted by the next
		// restart): what the crash left behind - records of a batch without its sealing
		// record, a cut-off tail - must not come back to life through the rewrite
		s.Exec(core.Op{Kind: "merge"})
		s.Exec(core.Op{Kind: "restart"})
		if !s.Dead {
			s.Exec(core.Op{Kind: "restart"})
		}
		c.res.Add("continuations_starting_with_merge", 1)
		if report("merge-first") {
			return
		}
		if s.Dead || s.DB == nil {
			return
		}
	}
	s.Exec(core.Op{Kind: "put", Key: pick(), VLen: r.Range(1, 300), VSeed: r.U64() | 1})
	b := core.Op{Kind: "batch", Sub: []core.Op{{Kind: "put", Key: pick(), VLen: r.Range(0, 200), VSeed: r.U64() | 1}, {Kind: "del", Key: pick()}, {Kind: "put", Key: pick(), VLen: r.Range(1, 100), VSeed: r.U64() | 1}}}
	s.Exec(b)
	s.Exec(core.Op{Kind: "sync"})
	if report("writes") {
		return
	}
	m1 := s.M.Clone()
	newest := func() (string, int64) {
		fs := core.DataFiles(dir)
		if len(fs) == 0 {
			return "", 0
		}
		st, err := os.Stat(filepath.Join(dir, fs[len(fs)-1]))
		if err != nil {
			return "", 0
		}
		return fs[len(fs)-1], st.Size()
	}
	n0, size0 := newest()
	s.Exec(core.Op{Kind: "put", Key: pick(), VLen: r.Range(40, 500), VSeed: r.U64() | 1})
	if report("unsynced put") {
		return
	}
	n1, size1 := newest()
	second := ""
	if cfg.FileIO == 0 && n0 == n1 && size1-size0 > 16 {
		second = c.w.Dir("img2")
		if mon.CopyTree(img, second) == nil {
			cut := size0 + int64(r.Range(1, int(size1-size0)-1))
			os.Truncate(filepath.Join(second, "db", n1), cut)
		} else {
			second = ""
		}
	}
	// clean restart
	s.Exec(core.Op{Kind: "restart"})
	c.res.Add("continuations", 1)
	if report("clean-restart") {
		return
	}
	s.Close()
	if second != "" {
		t2 := core.Result{}
		s2 := core.NewSession(filepath.Join(second, "db"), cfg, &t2)
		s2.M = m1
		if s2.Open() {
			s2.CheckDump("after the second crash")
			s2.Close()
		}
		c.res.Add("continuations_second_crash", 1)
		if t2.Verdict == "violated" {
			c.res.Violate(fmt.Sprintf("%s image at %s (%s), continued after recovery, then a second crash tearing the unsynced tail: %s", kind, c.evLabel, extra, t2.Violations[0].Msg),
				c.feats(kind+"+continuation", ev, "second-crash"), map[string]any{"detail": c.detail(extra, nil), "continuation_ops": s.Log})
		}
		os.RemoveAll(second)
	}
}

// mergeContinuation (C07): an image taken inside Merge (an unfinished merge directory) is
// recovered, keys are deleted and rewritten, a new Merge runs to completion and is adopted.
func (c *crashRun) mergeContinuation(img string, m0 *core.Model, kind string, ev mon.Event, extra string) {
	dir := filepath.Join(img, "db")
	tmp := core.Result{}
	s := core.NewSession(dir, c.cfg, &tmp)
	s.M = m0.Clone()
	if !s.Open() {
		return
	}
	ks := s.M.Keys()
	for i, k := range ks {
		if i%2 == 0 {
			s.Exec(core.Op{Kind: "del", Key: []byte(k)})
		} else if i%5 == 1 {
			s.Exec(core.Op{Kind: "put", Key: []byte(k), VLen: c.r.Range(1, 200), VSeed: c.r.U64() | 1})
		}
	}
	s.Exec(core.Op{Kind: "merge"})
	s.Exec(core.Op{Kind: "restart"})
	if !s.Dead {
		s.Exec(core.Op{Kind: "restart"})
	}
	if s.DB != nil {
		s.Close()
	}
	c.res.Add("merge_continuations", 1)
	if tmp.Verdict == "violated" {
		c.res.Violate(fmt.Sprintf("%s image at %s (%s), recovered, then deletes + a new Merge + adoption: %s", kind, c.evLabel, extra, tmp.Violations[0].Msg),
			c.feats(kind+"+merge-continuation", ev, "later-merge"), map[string]any{"detail": c.detail(extra, nil), "continuation_ops": s.Log})
	}
}

func sortKeys(k [][]byte) {
	for i := 1; i < len(k); i++ {
		for j := i; j > 0 && string(k[j]) < string(k[j-1]); j-- {
			k[j], k[j-1] = k[j-1], k[j]
		}
	}
}

func relState(m string, a int) string {
	if strings.Contains(m, "in-flight") {
		return "a+1"
	}
	var j int
	if _, err := fmt.Sscanf(m, "S%d", &j); err == nil {
		if a-j > 6 {
			return "a-7.."
		}
		return fmt.Sprintf("a-%d", a-j)
	}
	return m
}

func (c *crashRun) lookup(m string) *core.Model {
	if strings.Contains(m, "in-flight") {
		return c.pending
	}
	var j int
	if _, err := fmt.Sscanf(m, "S%d", &j); err == nil && j >= 0 && j < len(c.states) {
		return c.states[j]
	}
	return nil
}

// applyOp computes the state a mutating op leads to.
func applyOp(m *core.Model, op core.Op) *core.Model {
	n := m.Clone()
	switch op.Kind {
	case "put":
		n.Put(op.Key, op.Value())
	case "del":
		n.Delete(op.Key)
	case "batch":
		for _, so := range op.Sub {
			switch so.Kind {
			case "put":
				n.Put(so.Key, so.Value())
			case "del":
				n.Delete(so.Key)
			}
		}
	}
	return n
}

func isMutation(op core.Op) bool { return op.Kind == "put" || op.Kind == "del" || op.Kind == "batch" }
