package props

import (
	"bytes"
	"errors"
	"fmt"
	"io"
	"regexp"
	"runtime"
	"sort"
	"strings"
	"sync"
	"sync/atomic"
	"time"

	kv "github.com/XiXi-2024/xixi-kv"
	"github.com/XiXi-2024/xixi-kv/datafile"
	"github.com/XiXi-2024/xixi-kv/vhook"
	"verif/harness/core"
)

// C09 — no data races, panics, deadlocks or internal errors under concurrent use.
type c09 struct{}

func init() { core.Register(c09{}) }

func (c09) ID() string    { return "C09" }
func (c09) Level() string { return "exploration" }
func (c09) Rule() string {
	return "cases = (index type, I/O type, DataFileSize 16..64 KiB, 4..16 client goroutines, seed): every client runs a seed-determined stream over Put, Get, Delete (a handful of shared keys), ListKeys, Fold, NewIterator+walk+Close (forward/reverse/prefix), Stat, Sync, batches (NewBatch..Commit inside one goroutine, with Batch.Get; and ONE Batch object shared with 2..4 helper goroutines that Get unstaged keys, Put and Delete on it while the owner stages and commits; in half of these the keys are private to the client, helpers race Delete and Put of the same key, and after they have all returned the owner puts a final value and commits - each key must then hold it) and Merge, in a harness built with -race (which implies checkptr); a second, unrelated database in another directory of the same process is opened, read, written, merged and closed in a loop meanwhile; a stateless hook handler yields/sleeps at the engine's hook points to widen windows; the harness itself shares no per-call synchronisation between clients (per-client logs, merged after Wait) so that it adds no happens-before edges that would hide engine races. Violations: a race-detector report with an engine frame (reports are de-duplicated by the pair of innermost engine functions), a panic recovered around any call, a fatal runtime error (worker death), an internal-inconsistency error (ErrIndexUpdateFailed, ErrDataFileNotFound, ErrInvalidCRC, io.EOF, ErrClosed, ErrIncompleteTail) from an individually valid call, a value returned by Get/Fold/iterator that no client wrote for that key, nil or unsorted keys from ListKeys, and a deadlock: no call completes for 30 s AND two goroutine dumps 10 s apart show every client goroutine parked in the same sync.(RW)Mutex acquisition inside engine frames; a stall without that signature is inconclusive. Non-trivial: run in which >=8 of the 12 call kinds overlapped in time with a Put and >=1 rotation happened; distinct = (config, clients, seed)"
}
func (c09) Assumptions() []string {
	return []string{"the race detector reports races only on executed paths and keeps a bounded access history; a clean run is not race freedom",
		"Close/Backup racing with other calls and the timer-driven background merge are outside the statement's list", "ErrMergeIsProgress and ErrMergeOutputOverflow are legitimate Merge results"}
}
func (c09) Required() []string {
	return []string{"calls", "calls_put", "calls_listkeys", "calls_fold", "calls_iter", "calls_batch", "calls_batchget", "shared_batch_calls", "calls_merge", "overlap_pairs", "rotations", "neighbour_database_generations"}
}
func (c09) CaseBudget(string) time.Duration { return 300 * time.Second }

type c09Case struct {
	Cfg     core.Config
	Clients int
	Calls   int
}

func (c09) Cases(tier string, seed uint64) []core.Case {
	seeds := 3
	calls := 500
	if tier == "thorough" {
		seeds, calls = 160, 900
	}
	r := core.NewRng(core.Mix(seed, 0xC09))
	var out []core.Case
	for s := 0; s < seeds; s++ {
		for _, it := range core.IndexTypes {
			for _, iot := range core.FileIOs {
				cfg := core.Config{IndexType: it, ShardNum: []int{1, 4, 16}[r.Intn(3)], FileIO: iot, DataFileSize: []int64{16 << 10, 32 << 10, 64 << 10}[r.Intn(3)],
					Sync: []byte{0, 0, 2}[r.Intn(3)], BytesPerSync: 4096}
				cl := []int{4, 8, 16}[r.Intn(3)]
				if tier == "thorough" && s%2 == 0 {
					cl = 16
				}
				out = append(out, core.Case{Index: len(out), ID: fmt.Sprintf("c09-%04d", len(out)), Seed: r.U64(), Data: c09Case{Cfg: cfg, Clients: cl, Calls: calls}})
			}
		}
	}
	return out
}

// stateless delay handler: no shared state, hence no synchronisation between clients
type delayHandler struct{}

func (delayHandler) IO(kind, path string, off int64, n int, buf []byte) {}
func (delayHandler) FS(kind, a, b string)                               {}
func (delayHandler) Point(name string) {
	t := time.Now().UnixNano()
	switch (t >> 3) & 15 {
	case 0, 1, 2:
		runtime.Gosched()
	case 3:
		time.Sleep(20 * time.Microsecond)
	}
}

var c09Kinds = []string{"put", "get", "del", "listkeys", "fold", "iter", "stat", "sync", "batch", "merge", "bigput", "batchget"}

type c09Call struct {
	kind   int
	t0, t1 int64
}

type c09Client struct {
	id      int
	calls   []c09Call
	viol    []string
	vclass  []string
	panics  int
	errs    map[string]int
	prog    atomic.Int64
	merges  int
	foreign int
}

func internalErr(err error) bool {
	return errors.Is(err, kv.ErrIndexUpdateFailed) || errors.Is(err, kv.ErrDataFileNotFound) || errors.Is(err, datafile.ErrInvalidCRC) ||
		errors.Is(err, io.EOF) || errors.Is(err, datafile.ErrClosed) || errors.Is(err, datafile.ErrIncompleteTail) || errors.Is(err, kv.ErrDBClosed)
}

func (c09) Run(c core.Case, w *core.Worker) core.Result {
	cc := c.Data.(c09Case)
	res := core.Result{}
	old := vhook.Set(delayHandler{})
	defer vhook.Set(old)
	dir := w.Dir("db")
	db, err := kv.Open(cc.Cfg.Options(dir))
	if err != nil {
		res.Violate("Open failed: "+err.Error(), map[string]string{"class": "open-error"}, nil)
		return res
	}
	keys := [][]byte{[]byte("a"), []byte("ab"), []byte("b"), []byte("ba"), []byte("c"), []byte("k\xff")}
	if c.Index%2 == 1 {
		// pre-history: the shared keys live in files that were merged and adopted through the
		// hint file, so the concurrent phase starts on data files that Open did not scan
		pre := core.NewRng(core.Mix(c.Seed, 77))
		// enough live data for several merged files: only the newest merged file is rescanned
		// at the adopting Open, the others are known through the hint file alone
		all := append([][]byte{}, keys...)
		for i := 0; i < 30; i++ {
			all = append(all, []byte(fmt.Sprintf("fill%02d", i)))
		}
		for round := 0; round < 2; round++ {
			for _, k := range all {
				v := append(append([]byte{}, k...), []byte(fmt.Sprintf(":pre.%d:", round))...)
				n := pre.Range(1500, 4500)
				for len(v) < n {
					v = append(v, 'p')
				}
				db.Put(k, v)
			}
		}
		merr := db.Merge()
		cerr := db.Close()
		if merr == nil && cerr == nil {
			db, err = kv.Open(cc.Cfg.Options(dir))
			if err != nil {
				res.Violate("reopen after the pre-history merge failed: "+err.Error(), map[string]string{"class": "open-error"}, nil)
				return res
			}
			res.Add("cases_starting_on_adopted_merge", 1)
		} else {
			db, err = kv.Open(cc.Cfg.Options(dir))
			if err != nil {
				res.Violate("reopen failed: "+err.Error(), map[string]string{"class": "open-error"}, nil)
				return res
			}
		}
	}
	base := time.Now()
	clients := make([]*c09Client, cc.Clients)
	var wg sync.WaitGroup
	for i := range clients {
		clients[i] = &c09Client{id: i, errs: map[string]int{}}
		wg.Add(1)
		go c09ClientLoop(clients[i], db, keys, core.NewRng(core.Mix(c.Seed, uint64(i))), cc.Calls, base, &wg)
	}
	// a NEIGHBOUR: a second, unrelated database in another directory of the same process is
	// opened, written, merged and closed in a loop while the clients run (two instances
	// share nothing but the package: whatever they do share must be synchronised)
	nbStop, nbDone := make(chan struct{}), make(chan struct{})
	var nbViol string
	var nbRounds int
	go func() {
		defer close(nbDone)
		ndir := w.Dir("neighbour")
		ncfg := cc.Cfg
		ncfg.DataFileSize = 64 << 10
		for gen := 0; ; gen++ {
			select {
			case <-nbStop:
				return
			default:
			}
			pv, _ := core.Safe(func() {
				nd, err := kv.Open(ncfg.Options(ndir))
				if err != nil {
					nbViol = fmt.Sprintf("generation %d of a second database in the same process: Open of its cleanly closed directory failed: %v", gen, err)
					return
				}
				for i := 0; i < 40; i++ {
					k := []byte(fmt.Sprintf("n%02d", i))
					want := append(append([]byte{}, k...), fmt.Sprintf(":%d:", gen-1)...)
					if gen > 0 {
						if v, err := nd.Get(k); err != nil || !bytes.HasPrefix(v, want) {
							nbViol = fmt.Sprintf("generation %d of a second database in the same process: Get(%s) = %q err=%v, expected the value of the previous generation", gen, k, v[:min(len(v), 12)], err)
						}
					}
					v := append(append([]byte{}, k...), fmt.Sprintf(":%d:", gen)...)
					for len(v) < 1800 {
						v = append(v, 'n')
					}
					nd.Put(k, v)
				}
				if gen%3 == 2 {
					nd.Merge()
				}
				if err := nd.Close(); err != nil {
					nbViol = "Close of the second database failed: " + err.Error()
				}
			})
			if pv != nil {
				nbViol = fmt.Sprintf("the second database in the same process panicked: %v", pv)
			}
			nbRounds++
			if nbViol != "" {
				return
			}
		}
	}()
	done := make(chan struct{})
	go func() { wg.Wait(); close(done) }()
	// progress watchdog / deadlock criterion
	last := int64(-1)
	stall := 0
	verdict := ""
loop:
	for {
		select {
		case <-done:
			break loop
		case <-time.After(time.Second):
		}
		var sum int64
		for _, cl := range clients {
			sum += cl.prog.Load()
		}
		if sum != last {
			last, stall = sum, 0
			continue
		}
		stall++
		if stall >= 30 {
			d1 := allStacks()
			time.Sleep(10 * time.Second)
			var sum2 int64
			for _, cl := range clients {
				sum2 += cl.prog.Load()
			}
			if sum2 != sum {
				last, stall = sum2, 0
				continue
			}
			d2 := allStacks()
			if sig, ok := deadlockSignature(d1, d2); ok {
				verdict = "deadlock"
				res.Violate("deadlock: no API call completed for 40 s and every client goroutine is parked in a mutex acquisition inside the engine, identically in two dumps 10 s apart: "+sig,
					map[string]string{"class": "deadlock", "sig": sig, "index": fmt.Sprint(cc.Cfg.IndexType)}, d2)
			} else {
				verdict = "stall"
				res.Verdict = "inconclusive"
				res.Note = "no progress for 40 s without the deadlock signature"
			}
			break loop
		}
	}
	close(nbStop)
	if verdict == "" {
		<-nbDone
		res.Add("neighbour_database_generations", int64(nbRounds))
		if nbViol != "" {
			res.Violate(nbViol, map[string]string{"class": "neighbour-instance", "index": fmt.Sprint(cc.Cfg.IndexType), "io": fmt.Sprint(cc.Cfg.FileIO)}, nil)
		}
	}
	// collect
	nOverlapKinds := map[int]bool{}
	var all []c09Call
	for _, cl := range clients {
		for _, cv := range cl.viol {
			_ = cv
		}
		for i, v := range cl.viol {
			res.Violate(v, map[string]string{"class": cl.vclass[i], "index": fmt.Sprint(cc.Cfg.IndexType), "io": fmt.Sprint(cc.Cfg.FileIO)}, map[string]any{"config": cc.Cfg, "clients": cc.Clients})
		}
		res.Add("recovered_panics", int64(cl.panics))
		for e, n := range cl.errs {
			if strings.HasPrefix(e, "shared_batch") {
				res.Add(e, int64(n))
				continue
			}
			res.Add("err_"+e, int64(n))
		}
		for _, cv := range cl.calls {
			res.Add("calls", 1)
			res.Add("calls_"+c09Kinds[cv.kind], 1)
		}
		all = append(all, cl.calls...)
	}
	// co-occurrence: which kinds overlapped in time with a call of each other kind
	sort.Slice(all, func(i, j int) bool { return all[i].t0 < all[j].t0 })
	var cooc [12][12]bool
	for i := range all {
		for j := i + 1; j < len(all) && all[j].t0 < all[i].t1; j++ {
			cooc[all[i].kind][all[j].kind] = true
			cooc[all[j].kind][all[i].kind] = true
		}
	}
	pairs := 0
	for a := range cooc {
		for b := range cooc[a] {
			if cooc[a][b] {
				pairs++
				res.SetAdd("overlap", c09Kinds[a]+"~"+c09Kinds[b])
				if a == 0 {
					nOverlapKinds[b] = true
				}
			}
		}
	}
	res.Add("overlap_pairs", int64(pairs))
	nfiles := 0
	if verdict == "" {
		// quiescent: the directory must close and reopen cleanly
		var cerr error
		pv, _ := core.Safe(func() { cerr = db.Close() })
		if pv != nil || cerr != nil {
			res.Violate(fmt.Sprintf("Close after the run failed: %v %v", pv, cerr), map[string]string{"class": "close-error"}, nil)
		} else {
			nfiles = len(core.DataFiles(dir))
			db2, err := kv.Open(cc.Cfg.Options(dir))
			if err != nil {
				res.Violate("reopen after the concurrent run failed: "+err.Error(), map[string]string{"class": "open-error", "err": err.Error()}, nil)
			} else {
				ferr := db2.Fold(func(k, v []byte) bool {
					if !bytes.HasPrefix(v, append(append([]byte{}, k...), ':')) && len(v) > 0 {
						res.Violate(fmt.Sprintf("after restart key %q holds a value no client wrote for it", k), map[string]string{"class": "foreign-value"}, nil)
						return false
					}
					return true
				})
				if ferr != nil {
					res.Violate("Fold after restart: "+ferr.Error(), map[string]string{"class": "internal-error", "err": ferr.Error()}, nil)
				}
				db2.Close()
			}
		}
	}
	if nfiles > 1 {
		res.Add("rotations", int64(nfiles-1))
	}
	res.Nontrivial = len(nOverlapKinds) >= 8 && nfiles > 1
	res.Hash = core.HashBytes([]byte(fmt.Sprint(cc, c.Seed)))
	res.SetAdd("config", fmt.Sprintf("idx%d/io%d/clients%d", cc.Cfg.IndexType, cc.Cfg.FileIO, cc.Clients))
	if c.Index < 2 {
		res.Sample = map[string]any{"config": cc.Cfg, "clients": cc.Clients, "calls_per_client": cc.Calls, "overlap_pairs": pairs, "data_files_after": nfiles}
	}
	return res
}

func allStacks() string {
	buf := make([]byte, 4<<20)
	return string(buf[:runtime.Stack(buf, true)])
}

var hexRe = regexp.MustCompile(`0x[0-9a-f]+|\+0x[0-9a-f]+|\d+ minutes`)

// deadlockSignature: every client goroutine parked in a mutex acquisition inside
// engine frames, with identical (normalised) stacks in both dumps.
func deadlockSignature(d1, d2 string) (string, bool) {
	norm := func(d string) (map[string]string, bool) {
		out := map[string]string{}
		all := true
		for _, g := range strings.Split(d, "\n\n") {
			if !strings.Contains(g, "props.c09ClientLoop") {
				continue
			}
			lines := strings.Split(g, "\n")
			id := strings.Fields(lines[0])[1]
			locked := (strings.Contains(g, "sync.(*RWMutex).Lock") || strings.Contains(g, "sync.(*RWMutex).RLock") || strings.Contains(g, "sync.(*Mutex).Lock")) &&
				strings.Contains(g, "github.com/XiXi-2024/xixi-kv")
			if !locked {
				all = false
			}
			var fr []string
			for _, l := range lines[1:] {
				if !strings.HasPrefix(l, "\t") {
					fr = append(fr, hexRe.ReplaceAllString(l, ""))
				}
			}
			out[id] = strings.Join(fr, "|")
		}
		return out, all && len(out) > 0
	}
	a, okA := norm(d1)
	b, okB := norm(d2)
	if !okA || !okB || len(a) != len(b) {
		return "", false
	}
	fnRe := regexp.MustCompile(`xixi-kv\.\(\*[A-Za-z]+\)\.[A-Za-z]+`)
	sig := map[string]bool{}
	for id, s := range a {
		if b[id] != s {
			return "", false
		}
		for _, f := range fnRe.FindAllString(s, -1) {
			sig[f] = true
		}
	}
	var l []string
	for f := range sig {
		l = append(l, f)
	}
	sort.Strings(l)
	return strings.Join(l, ","), true
}

func c09ClientLoop(cl *c09Client, db *kv.DB, keys [][]byte, r *core.Rng, ncalls int, base time.Time, wg *sync.WaitGroup) {
	defer wg.Done()
	uniq := 0
	mkval := func(k []byte, n int) []byte {
		uniq++
		v := append(append([]byte{}, k...), ':')
		v = append(v, []byte(fmt.Sprintf("%d.%d:", cl.id, uniq))...)
		for len(v) < n {
			v = append(v, byte('a'+len(v)%26))
		}
		return v
	}
	checkVal := func(where string, k, v []byte) {
		if len(v) == 0 {
			return
		}
		if !bytes.HasPrefix(v, append(append([]byte{}, k...), ':')) {
			cl.viol = append(cl.viol, fmt.Sprintf("%s returned for key %q a value (len %d, starts %q) that no client wrote for that key", where, k, len(v), v[:min(len(v), 12)]))
			cl.vclass = append(cl.vclass, "foreign-value")
		}
	}
	note := func(call string, err error) {
		if err == nil {
			return
		}
		switch {
		case errors.Is(err, kv.ErrKeyNotFound):
		case errors.Is(err, kv.ErrMergeIsProgress), errors.Is(err, kv.ErrMergeOutputOverflow):
			cl.errs["merge_refused"]++
		case internalErr(err):
			if len(cl.viol) < 4 {
				cl.viol = append(cl.viol, fmt.Sprintf("%s returned the internal-inconsistency error %q for an individually valid call", call, err))
				cl.vclass = append(cl.vclass, "internal-error")
			}
		default:
			cl.errs["other:"+err.Error()]++
			if len(cl.viol) < 4 {
				cl.viol = append(cl.viol, fmt.Sprintf("%s returned unexpected error %q", call, err))
				cl.vclass = append(cl.vclass, "unexpected-error")
			}
		}
	}
	for i := 0; i < ncalls; i++ {
		k := keys[r.Intn(len(keys))]
		kind := 0
		switch c := r.Intn(100); {
		case c < 28:
			kind = 0
		case c < 46:
			kind = 1
		case c < 58:
			kind = 2
		case c < 64:
			kind = 3
		case c < 69:
			kind = 4
		case c < 76:
			kind = 5
		case c < 81:
			kind = 6
		case c < 84:
			kind = 7
		case c < 92:
			kind = 8
		case c < 94:
			kind = 9
		case c < 97:
			kind = 10
		default:
			kind = 11
		}
		if kind == 9 && cl.merges >= 3 {
			kind = 0
		}
		t0 := time.Since(base).Nanoseconds()
		func() {
			defer func() {
				if p := recover(); p != nil {
					cl.panics++
					if len(cl.viol) < 4 {
						buf := make([]byte, 4096)
						n := runtime.Stack(buf, false)
						cl.viol = append(cl.viol, fmt.Sprintf("%s panicked: %v\n%s", c09Kinds[kind], p, buf[:n]))
						cl.vclass = append(cl.vclass, "panic")
					}
				}
			}()
			switch kind {
			case 0:
				note("Put", db.Put(k, mkval(k, r.Range(4, 1500))))
			case 10:
				note("Put", db.Put(k, mkval(k, r.Range(8<<10, 40<<10))))
			case 1:
				v, err := db.Get(k)
				note("Get", err)
				if err == nil {
					checkVal("Get", k, v)
				}
			case 2:
				note("Delete", db.Delete(k))
			case 3:
				ks := db.ListKeys()
				for j, kk := range ks {
					if kk == nil {
						cl.viol = append(cl.viol, fmt.Sprintf("ListKeys returned a nil key at position %d of %d", j, len(ks)))
						cl.vclass = append(cl.vclass, "listkeys")
						break
					}
					if j > 0 && bytes.Compare(ks[j-1], kk) >= 0 {
						cl.viol = append(cl.viol, fmt.Sprintf("ListKeys not strictly ascending at position %d", j))
						cl.vclass = append(cl.vclass, "listkeys")
						break
					}
				}
			case 4:
				note("Fold", db.Fold(func(kk, v []byte) bool { checkVal("Fold", kk, v); return true }))
			case 5:
				opts := kv.IteratorOptions{Reverse: r.Chance(1, 2)}
				if r.Chance(1, 2) {
					opts.Prefix = k[:1]
				}
				it := db.NewIterator(opts)
				n := 0
				for it.Rewind(); it.Valid() && n < 50; it.Next() {
					kk := it.Key()
					v, err := it.Value()
					note("Iterator.Value", err)
					if err == nil {
						checkVal("Iterator", kk, v)
					}
					n++
				}
				it.Close()
			case 6:
				st := db.Stat()
				if st.KeyNum < 0 || st.DataFileNum < 1 {
					cl.viol = append(cl.viol, fmt.Sprintf("Stat returned KeyNum=%d DataFileNum=%d", st.KeyNum, st.DataFileNum))
					cl.vclass = append(cl.vclass, "stat")
				}
			case 7:
				note("Sync", db.Sync())
			case 11:
				if r.Chance(1, 2) {
					// a shared Batch whose outcome is decidable: keys private to this client (so
					// no other client interferes), present in the database beforehand; helpers
					// race Delete and Put of the SAME key on the shared batch; when all of them
					// have returned the owner puts a final value for every key and commits:
					// the last operation on each key is that Put, so each key must hold it
					var pk [][]byte
					for j := 0; j < 3; j++ {
						k := []byte(fmt.Sprintf("sb%d.%d", cl.id, j))
						pk = append(pk, k)
						note("Put", db.Put(k, mkval(k, 20)))
					}
					b := db.NewBatch(kv.BatchOptions{})
					var hwg sync.WaitGroup
					herr := make([]error, 4)
					for h := 0; h < 4; h++ {
						hv := [][]byte{mkval(pk[0], 30), mkval(pk[1], 30), mkval(pk[2], 30)}
						hwg.Add(1)
						go func(h int) {
							defer hwg.Done()
							defer func() { recover() }()
							for j := 0; j < 6; j++ {
								k := pk[(h/2+j)%3]
								var err error
								if (h+j)%2 == 0 {
									err = b.Delete(k)
								} else {
									err = b.Put(k, hv[(h/2+j)%3])
								}
								if err != nil {
									herr[h] = err
								}
							}
						}(h)
					}
					hwg.Wait()
					for _, e := range herr {
						note("Batch.Put/Delete (shared batch)", e)
					}
					final := map[string][]byte{}
					for _, k := range pk {
						v := mkval(k, 40)
						final[string(k)] = v
						note("Batch.Put", b.Put(k, v))
					}
					note("Commit", b.Commit())
					for _, k := range pk {
						v, err := db.Get(k)
						if err != nil || !bytes.Equal(v, final[string(k)]) {
							cl.viol = append(cl.viol, fmt.Sprintf("shared batch: the last operation on key %q was Put(%q...) and Commit succeeded, but Get returns %q err=%v", k, final[string(k)][:min(16, len(final[string(k)]))], v[:min(16, len(v))], err))
							cl.vclass = append(cl.vclass, "lost-update")
						}
					}
					cl.errs["shared_batch_decidable_outcomes"]++
					cl.errs["shared_batch_calls"] += 24
					return
				}
				// ONE Batch object shared by this client and 2..4 helper goroutines (the batch has
				// its own lock for exactly that): helpers Get unstaged keys / Put / Delete on it
				// while the owner stages and commits. Helpers log into private slots which the
				// owner reads after Wait, i.e. after every call on the batch has returned.
				b := db.NewBatch(kv.BatchOptions{Sync: r.Chance(1, 6)})
				type hcall struct {
					what string
					k, v []byte
					err  error
				}
				nh := r.Range(2, 4)
				slots := make([][]hcall, nh)
				hpanics := make([]string, nh)
				var hwg sync.WaitGroup
				for h := 0; h < nh; h++ {
					hr := core.NewRng(r.U64())
					vals := [][]byte{mkval(keys[h%len(keys)], hr.Range(4, 600)), mkval(keys[(h+1)%len(keys)], hr.Range(4, 600))}
					hwg.Add(1)
					go func(h int) {
						defer hwg.Done()
						defer func() {
							if p := recover(); p != nil {
								buf := make([]byte, 4096)
								hpanics[h] = fmt.Sprintf("%v\n%s", p, buf[:runtime.Stack(buf, false)])
							}
						}()
						for j := hr.Range(3, 10); j > 0; j-- {
							bk := keys[hr.Intn(len(keys))]
							switch c := hr.Intn(10); {
							case c < 6:
								v, err := b.Get(bk)
								slots[h] = append(slots[h], hcall{"Batch.Get", bk, v, err})
							case c < 8:
								slots[h] = append(slots[h], hcall{"Batch.Put", nil, nil, b.Put(keys[(h+c)%len(keys)], vals[c-6])})
							case c < 9:
								slots[h] = append(slots[h], hcall{"Batch.Delete", nil, nil, b.Delete(bk)})
							default:
								runtime.Gosched()
							}
						}
					}(h)
				}
				for j := r.Range(0, 3); j > 0; j-- {
					bk := keys[r.Intn(len(keys))]
					if r.Chance(1, 2) {
						note("Batch.Put", b.Put(bk, mkval(bk, r.Range(4, 600))))
					} else {
						runtime.Gosched()
					}
				}
				note("Commit", b.Commit())
				hwg.Wait()
				for h := range slots {
					if hpanics[h] != "" {
						cl.panics++
						cl.viol = append(cl.viol, "a call on a shared Batch panicked: "+hpanics[h])
						cl.vclass = append(cl.vclass, "panic")
					}
					for _, hc := range slots[h] {
						if errors.Is(hc.err, kv.ErrBatchCommitted) {
							cl.errs["shared_batch_call_after_commit"]++
							continue
						}
						note(hc.what+" (shared batch)", hc.err)
						if hc.what == "Batch.Get" && hc.err == nil {
							checkVal("Batch.Get (shared batch)", hc.k, hc.v)
						}
						cl.errs["shared_batch_calls"]++
					}
				}
			case 8:
				b := db.NewBatch(kv.BatchOptions{Sync: r.Chance(1, 6)})
				for j := r.Range(1, 5); j > 0; j-- {
					bk := keys[r.Intn(len(keys))]
					switch r.Intn(3) {
					case 0:
						note("Batch.Delete", b.Delete(bk))
					case 1:
						v, err := b.Get(bk)
						note("Batch.Get", err)
						if err == nil {
							checkVal("Batch.Get", bk, v)
						}
					default:
						note("Batch.Put", b.Put(bk, mkval(bk, r.Range(4, 600))))
					}
				}
				note("Commit", b.Commit())
			case 9:
				cl.merges++
				note("Merge", db.Merge())
			}
		}()
		cl.calls = append(cl.calls, c09Call{kind: kind, t0: t0, t1: time.Since(base).Nanoseconds()})
		cl.prog.Store(int64(i + 1))
	}
}
