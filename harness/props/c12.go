package props

import (
	"bytes"
	"errors"
	"fmt"
	"io"
	"os"
	"path/filepath"
	"sort"
	"strings"

	kv "github.com/XiXi-2024/xixi-kv"
	"github.com/XiXi-2024/xixi-kv/datafile"
	"verif/harness/core"
	"verif/harness/mon"
	"verif/harness/vfmt"
)

// C12 — damaged bytes are detected or harmless, never served, never a panic.
type c12 struct{}

func init() { core.Register(c12{}) }

func (c12) ID() string    { return "C12" }
func (c12) Level() string { return "fault_enumeration" }
func (c12) Rule() string {
	return "flip cases: small pristine databases built deterministically (variants: plain 1 file; rotated 3 files with overwrites, tombstones and a committed batch; unsealed batch tail; un-adopted finished merge so that hint file, marker and rewritten files are read by Open; a merge over ~10 files in which uniformly sized live and dead records alternate, damaged in the marker only (a flipped bit of the boundary id yields a smaller, non-zero id); 34 KiB variant with a 2-chunk record, thorough only); EVERY single-bit flip of EVERY byte of EVERY file (data, hint, marker) is applied to a fresh copy, then Open (every third refused Open is repeated, also under the other I/O type: a refusal must not turn into acceptance), full dump (ListKeys, Get of every key ever written, Fold), Close. damage cases: larger databases (200 KiB..1 MiB, multi-block records) with random 1..64-byte overwrites, truncation to every length of the last two blocks and random lengths elsewhere, a block replaced by garbage or zeros, bit flips in an older data file whose size is an exact multiple of 32 KiB, every bit of the length and type fields of seed-chosen chunk headers (block-filling chunks of multi-block records preferred), and live faults (overwrite; truncation under standard I/O; the continuation block of a multi-block record replaced by the continuation block of another record whose first chunk has a different length) applied to the files of an OPEN database whose buffers were warmed by earlier reads, observed through Get/Fold on that handle; additionally, decided for the never-a-panic clause only: a block replaced by a copy of another block (intact chunks in the wrong place) and two files exchanged; the damaged file is also fed to the sequential reader directly. Oracle: a panic or process death is a violation; otherwise Open may fail, any Get/Fold may fail with an error other than key-not-found, or every key must map to its latest written value (deleted keys stay absent, no key that was never written appears); only when the damaged newest data file is byte for byte a possible torn-write image (truncation of that file, damage inside its last record, or a chunk of it whose header/declared length now reaches beyond the end of the file, which no reader can tell from the crash tail C03 requires recovery to accept) the mapping may instead be one of the prefix states S_j. Non-trivial: fault that hits a chunk header field or record header of a record that is live; distinct = (variant, file, byte, bit) resp. hash of the fault description"
}
func (c12) Assumptions() []string {
	return []string{"torn-tail window as stated in the rule (narrowest oracle that does not contradict C03)", "CRC-32 collisions are not constructed"}
}
func (c12) Required() []string {
	return []string{"bit_flips", "flips_data", "flips_hint", "flips_marker", "damage_faults", "outcome_open_error", "outcome_intact", "reader_runs", "live_faults"}
}
func (c12) Exhaustive(tier string) bool { return false }

type c12Case struct {
	Kind    string
	Variant string
	Part    int
	Parts   int
	NFaults int
	IO      byte
}

func (c12) Cases(tier string, seed uint64) []core.Case {
	r := core.NewRng(core.Mix(seed, 0xC12))
	variants := []struct {
		name  string
		parts int
	}{{"plain", 6}, {"rotated", 16}, {"unsealed", 6}, {"merge", 24}, {"merge-marker", 11}}
	if tier == "thorough" {
		variants = append(variants, struct {
			name  string
			parts int
		}{"bigrec", 160}, struct {
			name  string
			parts int
		}{"rotated2", 24}, struct {
			name  string
			parts int
		}{"merge2", 32})
	}
	var out []core.Case
	for _, v := range variants {
		for p := 0; p < v.parts; p++ {
			out = append(out, core.Case{Index: len(out), ID: fmt.Sprintf("c12-flip-%s-%03d", v.name, p), Seed: core.Mix(seed, uint64(len(v.name))*131+uint64(v.name[0])),
				Data: c12Case{Kind: "flip", Variant: v.name, Part: p, Parts: v.parts, IO: byte(p % 2)}})
		}
	}
	nd := 48
	nf := 40
	if tier == "thorough" {
		nd, nf = 600, 100
	}
	for i := 0; i < nd; i++ {
		out = append(out, core.Case{Index: len(out), ID: fmt.Sprintf("c12-damage-%04d", i), Seed: r.U64(), Data: c12Case{Kind: "damage", NFaults: nf, IO: byte(i % 2)}})
	}
	return out
}

type pristine struct {
	root    string
	cfg     core.Config
	states  []*core.Model // prefix states
	final   *core.Model
	ever    map[string]bool
	files   []string // relative paths of all files subject to faults
	newest  string   // relative path of the newest data file
	lastRec int64    // start offset of the last record in the newest data file
}

// buildPristine creates the database for a variant under root (db + db-merge).
func buildPristine(w *core.Worker, variant string, seed uint64, ioType byte, res *core.Result) (*pristine, string) {
	root := w.Dir("pristine")
	dir := filepath.Join(root, "db")
	r := core.NewRng(seed)
	cfg := core.Config{IndexType: 3, ShardNum: 4, FileIO: ioType, DataFileSize: 1 << 20}
	switch variant {
	case "rotated", "merge", "rotated2", "merge2", "merge-marker":
		cfg.DataFileSize = 700
	}
	tmp := core.Result{}
	s := core.NewSession(dir, cfg, &tmp)
	p := &pristine{root: root, cfg: cfg, ever: map[string]bool{}}
	if !s.Open() {
		return nil, "pristine Open failed"
	}
	states := []*core.Model{core.NewModel()}
	do := func(op core.Op) {
		s.Exec(op)
		if isMutation(op) {
			states = append(states, s.M.Clone())
		}
	}
	keys := [][]byte{[]byte("a"), []byte("bb"), []byte("key3"), []byte("k\x80\xff"), []byte("e")}
	put := func(k []byte, n int) core.Op { return core.Op{Kind: "put", Key: k, VLen: n, VSeed: r.U64()} }
	n := 14
	if variant == "rotated2" || variant == "merge2" {
		n = 30
		keys = append(keys, []byte("f6"), []byte("g777"))
	}
	for i := 0; i < n; i++ {
		k := keys[r.Intn(len(keys))]
		switch r.Intn(6) {
		case 0:
			do(core.Op{Kind: "del", Key: k})
		case 1:
			do(core.Op{Kind: "batch", Sub: []core.Op{put(keys[r.Intn(len(keys))], r.Range(0, 60)), {Kind: "del", Key: keys[r.Intn(len(keys))]}, put(k, r.Range(1, 40))}})
		default:
			do(put(k, r.Range(0, 120)))
		}
	}
	if variant == "bigrec" {
		do(put([]byte("big"), 33000))
		do(put([]byte("a"), 30))
	}
	if variant == "merge-marker" {
		// uniformly sized records over many files, every key written twice: the merge boundary
		// is a file id with several bits (so that one flipped bit yields a smaller non-zero id)
		// and the rewritten records sit at offsets where the original files hold records too
		// live records (written once) alternate with garbage (three keys overwritten again and
		// again), so every input file holds live data and the output needs about half the files
		for i := 0; i < 16; i++ {
			do(put([]byte(fmt.Sprintf("u%02d", i)), 100))
			do(put([]byte(fmt.Sprintf("g%02d", i%3)), 100))
		}
	}
	do(put([]byte("e"), 17)) // make sure something is live at the end
	if variant == "merge" || variant == "merge2" || variant == "merge-marker" {
		var merr error
		core.Safe(func() { merr = s.DB.Merge() })
		if merr != nil {
			return nil, "pristine Merge failed: " + merr.Error()
		}
		do(put([]byte("post"), 25))
	}
	if variant == "unsealed" {
		do(core.Op{Kind: "batch", Sub: []core.Op{put([]byte("u1"), 30), put([]byte("a"), 9), {Kind: "del", Key: []byte("e")}}})
	}
	if tmp.Verdict == "violated" || !s.Close() {
		return nil, "pristine history failed: " + fmt.Sprint(tmp.Violations)
	}
	for k := range s.M.Ever {
		p.ever[k] = true
	}
	dfs := core.DataFiles(dir)
	p.newest = filepath.Join("db", dfs[len(dfs)-1])
	if variant == "unsealed" {
		// cut the sealing record: the batch is on disk but was never sealed
		path := filepath.Join(root, p.newest)
		b, _ := os.ReadFile(path)
		recs, _, _ := vfmt.Scan(b)
		if len(recs) == 0 || recs[len(recs)-1].Type != vfmt.RecBatchFin {
			return nil, "pristine: no sealing record found"
		}
		os.Truncate(path, recs[len(recs)-1].Start)
		states = states[:len(states)-1]
	}
	p.states = states
	p.final = states[len(states)-1]
	for _, sub := range []string{"db", "db-merge"} {
		ents, _ := os.ReadDir(filepath.Join(root, sub))
		for _, e := range ents {
			if e.Name() == ".lock" {
				continue
			}
			if variant == "merge-marker" && !strings.HasSuffix(e.Name(), ".merge-finished") {
				continue // this variant damages the marker only
			}
			if st, err := os.Stat(filepath.Join(root, sub, e.Name())); err == nil && st.Size() > 0 {
				p.files = append(p.files, filepath.Join(sub, e.Name()))
			}
		}
	}
	sort.Strings(p.files)
	b, _ := os.ReadFile(filepath.Join(root, p.newest))
	recs, _, _ := vfmt.Scan(b)
	if len(recs) > 0 {
		p.lastRec = recs[len(recs)-1].Start
	}
	return p, ""
}

// classify names the field a byte offset of a data/hint file falls into.
func classifyByte(data []byte, off int64) string {
	raws, _, _ := vfmt.ScanRaw(data, 0)
	for _, rc := range raws {
		if off < rc.Start || off >= rc.End {
			continue
		}
		// walk the chunks of this record
		pos := rc.Start
		rem := int64(len(rc.Payload))
		first := true
		for pos < rc.End {
			inb := pos % vfmt.Block
			l := rem
			if room := vfmt.Block - inb - vfmt.Header; l > room {
				l = room
			}
			switch {
			case off >= pos && off < pos+4:
				return "crc"
			case off >= pos+4 && off < pos+6:
				return "length"
			case off == pos+6:
				return "type"
			case off < pos+vfmt.Header+l:
				if first && off < pos+vfmt.Header+4 {
					return "record-header"
				}
				return "payload"
			}
			pos += vfmt.Header + l
			rem -= l
			first = false
		}
	}
	return "padding-or-tail"
}

type c12Outcome struct {
	kind string // open-error | intact | get-error | prefix-state
}

// observe opens the (damaged) copy and applies the oracle. tailWindow: damage
// indistinguishable from a torn tail of the newest file.
func c12Observe(root string, p *pristine, tailWindow bool, res *core.Result) (outcome string, violation string) {
	var db *kv.DB
	var err error
	pv, st := core.Safe(func() { db, err = kv.Open(p.cfg.Options(filepath.Join(root, "db"))) })
	if pv != nil {
		return "panic", fmt.Sprintf("Open panicked: %v\n%s", pv, st)
	}
	if err != nil {
		// a refused Open must stay refused: every third refusal is followed by a second Open
		// of the same directory and a third one under the other I/O type; one that succeeds
		// is judged like any other successful Open (the failed attempt must not have
		// "repaired" the directory into accepting the damage)
		res.Add("outcome_open_error_first_attempt", 1)
		if res.Counters["outcome_open_error_first_attempt"]%3 != 1 {
			return "open-error", ""
		}
		for attempt := 0; attempt < 2 && err != nil; attempt++ {
			cfg2 := p.cfg
			if attempt == 1 {
				cfg2.FileIO = 1 - cfg2.FileIO
			}
			pv, st = core.Safe(func() { db, err = kv.Open(cfg2.Options(filepath.Join(root, "db"))) })
			if pv != nil {
				return "panic", fmt.Sprintf("repeated Open panicked: %v\n%s", pv, st)
			}
			res.Add("opens_repeated_after_a_refusal", 1)
		}
		if err != nil {
			return "open-error", ""
		}
		res.Add("repeated_opens_that_succeeded", 1)
	}
	defer func() { core.Safe(func() { db.Close() }) }()
	d, pv, st := core.DumpDB(db, p.ever)
	if pv != nil {
		return "panic", fmt.Sprintf("dump panicked: %v\n%s", pv, st)
	}
	// no key that was never written
	for _, k := range d.Keys {
		if !p.ever[k] {
			return "phantom", fmt.Sprintf("key %q was never written but is listed", k)
		}
	}
	check := func(m *core.Model) string {
		anyErr := false
		for k := range p.ever {
			want, has := m.M[k]
			got, listed := d.Vals[k]
			gerr, errd := d.Errs[k]
			if errd && gerr != "fold value differs from get value" {
				anyErr = true
				continue // an error is an acceptable answer for this key
			}
			if errd {
				return fmt.Sprintf("Fold and Get disagree for key %q", k)
			}
			if e, ok := d.Extra[k]; ok {
				if strings.HasPrefix(e, "present") {
					return fmt.Sprintf("key %q: %s", k, e)
				}
				anyErr = true
				continue
			}
			switch {
			case has && !listed:
				return fmt.Sprintf("key %q silently lost (Open succeeded, Get says not found); latest written value has %d bytes", k, len(want))
			case !has && listed:
				return fmt.Sprintf("deleted key %q is served again (%d bytes)", k, len(got))
			case has && !bytes.Equal(got, want):
				for ok2, wk := range allValues(p) {
					_ = ok2
					_ = wk
				}
				return fmt.Sprintf("key %q returns %d bytes (h=%s) that are not its latest written value (%d bytes, h=%s)", k, len(got), core.HashBytes(got)[:8], len(want), core.HashBytes(want)[:8])
			}
		}
		if _, fe := d.Errs["<fold>"]; fe {
			anyErr = true
		}
		if anyErr {
			return "ERR"
		}
		return ""
	}
	r := check(p.final)
	if r == "" {
		return "intact", ""
	}
	if r == "ERR" {
		return "get-error", ""
	}
	if tailWindow {
		for j := len(p.states) - 1; j >= 0; j-- {
			if rr := check(p.states[j]); rr == "" || rr == "ERR" {
				return "prefix-state", ""
			}
		}
	}
	return "wrong-data", r
}

func allValues(p *pristine) map[string]bool { return nil }

// tornLooking reports whether the (damaged) newest data file is byte for byte a
// possible torn-write image: decoding from the start, the first chunk that does
// not decode is one whose header or declared length reaches beyond the end of
// the file. No reader can tell such damage from the crash tail that C03
// requires recovery to accept, so the C03 outcome (a prefix state) is admitted.
func tornLooking(path string) bool {
	b, err := os.ReadFile(path)
	if err != nil {
		return false
	}
	_, _, serr := vfmt.ScanRaw(b, 0)
	return serr != nil && errors.Is(serr, vfmt.ErrTorn)
}

func c12Reader(path string, ioType byte, res *core.Result) string {
	var msg string
	pv, st := core.Safe(func() {
		dir, name := filepath.Split(path)
		var id uint32
		fmt.Sscanf(name, "%d", &id)
		suffix := name[strings.Index(name, "."):]
		df, err := datafile.OpenFile(dir, id, suffix, ioType)
		if err != nil {
			return
		}
		defer df.Close()
		rd := df.NewReader()
		for i := 0; i < 100000; i++ {
			var err error
			if suffix == ".hint" {
				_, _, err = rd.NextHintRecord()
			} else {
				_, _, err = rd.NextLogRecord()
			}
			if err != nil {
				if err != io.EOF && !errors.Is(err, datafile.ErrInvalidCRC) && !errors.Is(err, datafile.ErrIncompleteTail) {
					res.SetAdd("reader_errors", err.Error())
				}
				return
			}
		}
		msg = "sequential reader did not terminate within 100000 records"
	})
	res.Add("reader_runs", 1)
	if pv != nil {
		return fmt.Sprintf("sequential reader panicked: %v\n%s", pv, st)
	}
	return msg
}

func (c12) Run(c core.Case, w *core.Worker) core.Result {
	cc := c.Data.(c12Case)
	if cc.Kind == "damage" {
		return c12Damage(c, cc, w)
	}
	if cc.Variant != "merge-marker" {
		return c12Flip(c, cc, w)
	}
	// Merge rewrites its input files in Go map order, so which rewritten file receives which
	// record differs from build to build: the same marker byte is damaged on 6 fresh builds
	var res core.Result
	for rep := 0; rep < 6 && res.Verdict != "violated"; rep++ {
		c2 := c
		c2.Seed = core.Mix(c.Seed, uint64(rep))
		r := c12Flip(c2, cc, w)
		w.Clean()
		if rep == 0 {
			res = r
			continue
		}
		for k, v := range r.Counters {
			res.Add(k, v)
		}
		res.Nontrivial = res.Nontrivial || r.Nontrivial
		if r.Verdict == "violated" {
			res.Verdict, res.Violations = r.Verdict, append(res.Violations, r.Violations...)
		}
	}
	res.Add("marker_builds", 6)
	return res
}

func c12Flip(c core.Case, cc c12Case, w *core.Worker) core.Result {
	res := core.Result{}
	p, msg := buildPristine(w, cc.Variant, c.Seed, cc.IO, &res)
	if msg != "" {
		res.Violate("harness: "+msg, map[string]string{"class": "harness"}, nil)
		return res
	}
	// sanity: the undamaged copy must be intact
	{
		cp := w.Dir("cp")
		mon.CopyTree(p.root, cp)
		if o, v := c12Observe(cp, p, false, &res); o != "intact" {
			res.Violate(fmt.Sprintf("harness: pristine %s database does not observe as intact (%s %s)", cc.Variant, o, v), map[string]string{"class": "harness"}, nil)
			return res
		}
		os.RemoveAll(cp)
	}
	contents := map[string][]byte{}
	var total int64
	for _, f := range p.files {
		b, _ := os.ReadFile(filepath.Join(p.root, f))
		contents[f] = b
		total += int64(len(b))
	}
	lo, hi := total*int64(cc.Part)/int64(cc.Parts), total*int64(cc.Part+1)/int64(cc.Parts)
	pos := int64(0)
	nontriv := 0
	for _, f := range p.files {
		b := contents[f]
		for off := int64(0); off < int64(len(b)); off++ {
			g := pos + off
			if g < lo || g >= hi {
				continue
			}
			field := "marker"
			kind := "flips_marker"
			switch {
			case strings.HasSuffix(f, ".data"):
				field, kind = classifyByte(b, off), "flips_data"
			case strings.HasSuffix(f, ".hint"):
				field, kind = classifyByte(b, off), "flips_hint"
			}
			if field != "payload" && field != "padding-or-tail" {
				nontriv++
			}
			for bit := uint(0); bit < 8; bit++ {
				cp := w.Dir("cp")
				if err := mon.CopyTree(p.root, cp); err != nil {
					res.Violate("harness: copy failed: "+err.Error(), map[string]string{"class": "harness"}, nil)
					return res
				}
				fh, err := os.OpenFile(filepath.Join(cp, f), os.O_WRONLY, 0644)
				if err != nil {
					continue
				}
				fh.WriteAt([]byte{b[off] ^ (1 << bit)}, off)
				fh.Close()
				tail := f == p.newest && (off >= p.lastRec || tornLooking(filepath.Join(cp, f)))
				if tail {
					res.Add("faults_in_torn_tail_window", 1)
				}
				o, v := c12Observe(cp, p, tail, &res)
				res.Add("bit_flips", 1)
				res.Add(kind, 1)
				res.Add("field_"+field, 1)
				res.Add("outcome_"+strings.ReplaceAll(o, "-", "_"), 1)
				if v != "" {
					res.Violate(fmt.Sprintf("%s variant, %s byte %d bit %d (%s field): %s", cc.Variant, f, off, bit, field, v),
						map[string]string{"class": "damage", "fault": "bit-flip", "outcome": o, "field": field, "file": filepath.Ext(f)},
						map[string]any{"variant": cc.Variant, "file": f, "offset": off, "bit": bit, "io": cc.IO})
					if len(res.Violations) >= 6 {
						return res
					}
				}
				if bit == 0 && strings.HasSuffix(f, ".data") || strings.HasSuffix(f, ".hint") && bit == 3 {
					if m := c12Reader(filepath.Join(cp, f), cc.IO, &res); m != "" {
						res.Violate(fmt.Sprintf("%s variant, %s byte %d bit %d: %s", cc.Variant, f, off, bit, m),
							map[string]string{"class": "damage", "fault": "bit-flip", "outcome": "reader-panic", "field": field}, nil)
					}
				}
				os.RemoveAll(cp)
			}
		}
		pos += int64(len(b))
	}
	res.Nontrivial = nontriv > 0
	res.Hash = core.HashBytes([]byte(fmt.Sprint("flip", cc.Variant, cc.Part, cc.Parts)))
	if cc.Part == 0 {
		res.Sample = map[string]any{"kind": "flip", "variant": cc.Variant, "files": p.files, "total_bytes": total, "byte_range": []int64{lo, hi}, "prefix_states": len(p.states)}
	}
	return res
}

func c12Damage(c core.Case, cc c12Case, w *core.Worker) core.Result {
	res := core.Result{}
	r := core.NewRng(c.Seed)
	root := w.Dir("pristine")
	dir := filepath.Join(root, "db")
	cfg := core.Config{IndexType: core.IndexTypes[r.Intn(3)], ShardNum: 16, FileIO: cc.IO, DataFileSize: []int64{64 << 10, 256 << 10, 1 << 20}[r.Intn(3)]}
	tmp := core.Result{}
	s := core.NewSession(dir, cfg, &tmp)
	if !s.Open() {
		res.Violate("harness: pristine Open failed", map[string]string{"class": "harness"}, nil)
		return res
	}
	keys := core.GenKeys(r, r.Range(6, 14))
	g := &core.Gen{R: r, Keys: keys, Cfg: cfg, NoMerge: true, NoRestart: true, MaxVal: 80 << 10, NoOversize: true}
	g.EndOff = func() int64 { return int64(r.Intn(vfmt.Block)) }
	states := []*core.Model{core.NewModel()}
	target := int64(r.Range(200<<10, 900<<10))
	var written int64
	for i := 0; i < 3000 && written < target && !s.Dead; i++ {
		op := g.Next()
		if op.Kind == "put" {
			if r.Chance(1, 3) {
				op.VLen = r.Range(20<<10, 80<<10)
			}
			written += int64(op.VLen)
		}
		s.Exec(op)
		if isMutation(op) {
			states = append(states, s.M.Clone())
		}
	}
	if tmp.Verdict == "violated" || !s.Close() {
		res.Violate("harness: pristine history failed: "+fmt.Sprint(tmp.Violations), map[string]string{"class": "harness"}, nil)
		return res
	}
	p := &pristine{root: root, cfg: cfg, states: states, final: states[len(states)-1], ever: map[string]bool{}}
	for k := range s.M.Ever {
		p.ever[k] = true
	}
	dfs := core.DataFiles(dir)
	p.newest = filepath.Join("db", dfs[len(dfs)-1])
	{
		b, _ := os.ReadFile(filepath.Join(root, p.newest))
		recs, _, _ := vfmt.Scan(b)
		if len(recs) > 0 {
			p.lastRec = recs[len(recs)-1].Start
		}
	}
	var descs []string
	for fi := 0; fi < cc.NFaults; fi++ {
		cp := w.Dir("cp")
		mon.CopyTree(root, cp)
		name := dfs[r.Intn(len(dfs))]
		if r.Chance(1, 3) {
			name = dfs[len(dfs)-1]
		}
		rel := filepath.Join("db", name)
		path := filepath.Join(cp, rel)
		b, _ := os.ReadFile(path)
		if len(b) == 0 {
			os.RemoveAll(cp)
			continue
		}
		tail := false
		panicOnly := false
		desc := ""
		first := int64(-1)
		extraFeat := map[string]string{}
		switch k := r.Intn(8); {
		case k < 2:
			n := r.Range(1, 64)
			off := int64(r.Intn(len(b)))
			garb := core.FillValue(r.U64(), n)
			if int(off)+n > len(b) {
				garb = garb[:len(b)-int(off)]
			}
			fh, _ := os.OpenFile(path, os.O_WRONLY, 0644)
			fh.WriteAt(garb, off)
			fh.Close()
			first = off
			desc = fmt.Sprintf("overwrite %s [%d,+%d)", name, off, len(garb))
		case k < 4:
			var L int64
			if r.Chance(1, 5) && name != dfs[len(dfs)-1] {
				// cut an older file exactly at a record boundary
				raws, _, _ := vfmt.ScanRaw(b, 0)
				if len(raws) > 0 {
					L = raws[r.Intn(len(raws))].Start
				}
			} else if r.Chance(1, 2) && len(b) > 0 {
				lo := int64(len(b)) - 2*vfmt.Block
				if lo < 0 {
					lo = 0
				}
				L = lo + int64(r.Intn(int(int64(len(b))-lo)))
			} else {
				L = int64(r.Intn(len(b)))
			}
			os.Truncate(path, L)
			first = L
			tail = rel == p.newest
			desc = fmt.Sprintf("truncate %s %d->%d", name, len(b), L)
			extraFeat["file"] = "older"
			if rel == p.newest {
				extraFeat["file"] = "newest"
			}
			extraFeat["cut"] = "inside-record"
			raws, _, _ := vfmt.ScanRaw(b, 0)
			for _, rc := range raws {
				if rc.Start == L || rc.End == L {
					extraFeat["cut"] = "record-boundary"
				}
			}
			if L == 0 {
				extraFeat["cut"] = "record-boundary"
			}
		case k < 7:
			nb := (len(b) + vfmt.Block - 1) / vfmt.Block
			bi := r.Intn(nb)
			lo, hi := bi*vfmt.Block, (bi+1)*vfmt.Block
			if hi > len(b) {
				hi = len(b)
			}
			blk := make([]byte, hi-lo)
			how := []string{"garbage", "zeros", "copy-of-block"}[r.Intn(3)]
			switch how {
			case "garbage":
				copy(blk, core.FillValue(r.U64(), len(blk)))
			case "copy-of-block":
				src := r.Intn(nb)
				copy(blk, b[src*vfmt.Block:])
				how = fmt.Sprintf("copy-of-block-%d", src)
				panicOnly = true
				if src == bi {
					os.RemoveAll(cp)
					continue
				}
			}
			fh, _ := os.OpenFile(path, os.O_WRONLY, 0644)
			fh.WriteAt(blk, int64(lo))
			fh.Close()
			first = int64(lo)
			desc = fmt.Sprintf("block %d of %s replaced by %s", bi, name, how)
		default:
			if len(dfs) < 2 {
				os.RemoveAll(cp)
				continue
			}
			o := dfs[r.Intn(len(dfs))]
			if o == name {
				os.RemoveAll(cp)
				continue
			}
			op := filepath.Join(cp, "db", o)
			os.Rename(path, path+".x")
			os.Rename(op, path)
			os.Rename(path+".x", op)
			desc = fmt.Sprintf("files %s and %s swapped", name, o)
			panicOnly = true
		}
		if rel == p.newest && first >= 0 && (first >= p.lastRec || tornLooking(path)) {
			tail = true
		}
		if tail {
			res.Add("faults_in_torn_tail_window", 1)
		}
		o, v := c12Observe(cp, p, tail, &res)
		if panicOnly && o != "panic" {
			// relocated intact chunks / exchanged files are beyond "altered, truncated or
			// replaced by garbage": only the never-a-panic clause is decided for them
			v = ""
			res.Add("relocation_faults_panic_only", 1)
		}
		res.Add("damage_faults", 1)
		res.Add("outcome_"+strings.ReplaceAll(o, "-", "_"), 1)
		res.SetAdd("fault_kinds", strings.Fields(desc)[0])
		descs = append(descs, desc+" -> "+o)
		if v != "" {
			f := map[string]string{"class": "damage", "fault": strings.Fields(desc)[0], "outcome": o}
			for k2, v2 := range extraFeat {
				f[k2] = v2
			}
			res.Violate(fmt.Sprintf("%s: %s", desc, v), f,
				map[string]any{"config": cfg, "fault": desc, "tail_window": tail})
			if len(res.Violations) >= 6 {
				return res
			}
		}
		if m := c12Reader(path, cc.IO, &res); m != "" {
			res.Violate(fmt.Sprintf("%s: %s", desc, m), map[string]string{"class": "damage", "fault": strings.Fields(desc)[0], "outcome": "reader-panic"}, nil)
		}
		os.RemoveAll(cp)
	}
	// live faults: the damage happens while the database is open (the engine's cached sizes
	// and pooled buffers then disagree with the file); every Get/Fold must still return the
	// latest value or an error. Truncation is only applied under standard I/O (touching a
	// mapping beyond a shrunken file is SIGBUS by the kernel's definition, not the engine's).
	for fi := 0; fi < cc.NFaults/2; fi++ {
		cp := w.Dir("live")
		mon.CopyTree(root, cp)
		var db *kv.DB
		var err error
		pv, _ := core.Safe(func() { db, err = kv.Open(cfg.Options(filepath.Join(cp, "db"))) })
		if pv != nil || err != nil {
			res.Violate(fmt.Sprintf("harness: pristine copy does not open: %v %v", pv, err), map[string]string{"class": "harness"}, nil)
			return res
		}
		// warm the engine's pooled buffers with reads of other records
		for k := range p.ever {
			db.Get([]byte(k))
		}
		name := dfs[r.Intn(len(dfs))]
		path := filepath.Join(cp, "db", name)
		st, serr := os.Stat(path)
		if serr != nil {
			db.Close()
			os.RemoveAll(cp)
			continue
		}
		logical, _ := mon.ReadLogical(path, -1)
		size := int64(len(logical))
		if cfg.FileIO == 0 {
			size = st.Size()
		}
		desc := ""
		if size == 0 {
			db.Close()
			os.RemoveAll(cp)
			continue
		}
		// blocks that begin with a continuation chunk (Middle/Last) of a multi-block record
		var cont []int
		for bi := 1; bi*vfmt.Block+vfmt.Header <= len(logical); bi++ {
			if t := logical[bi*vfmt.Block+6]; t == vfmt.Middle || t == vfmt.Last {
				cont = append(cont, bi)
			}
		}
		if len(cont) >= 2 && fi%3 == 0 {
			// a misdirected block write: the continuation block of one record is replaced by
			// the continuation block of another (every chunk intact, order plausible, but the
			// stitched record has another length than its header says)
			di, sj := cont[r.Intn(len(cont))], cont[r.Intn(len(cont))]
			dl := int(logical[di*vfmt.Block+4]) | int(logical[di*vfmt.Block+5])<<8
			sl := int(logical[sj*vfmt.Block+4]) | int(logical[sj*vfmt.Block+5])<<8
			if di == sj || dl == sl {
				db.Close()
				os.RemoveAll(cp)
				continue
			}
			end := min((sj+1)*vfmt.Block, len(logical))
			blk := append([]byte{}, logical[sj*vfmt.Block:end]...)
			fh, _ := os.OpenFile(path, os.O_WRONLY, 0644)
			fh.WriteAt(blk, int64(di*vfmt.Block))
			fh.Close()
			desc = fmt.Sprintf("live stitch %s block %d (first chunk %d bytes) over block %d (first chunk %d bytes)", name, sj, sl, di, dl)
			res.Add("live_stitched_continuation_blocks", 1)
		} else if cfg.FileIO == 0 && r.Chance(1, 2) {
			L := int64(r.Intn(int(size)))
			os.Truncate(path, L)
			desc = fmt.Sprintf("live truncate %s %d->%d", name, size, L)
		} else {
			n := r.Range(1, 64)
			off := int64(r.Intn(int(size)))
			fh, _ := os.OpenFile(path, os.O_WRONLY, 0644)
			fh.WriteAt(core.FillValue(r.U64()|1, n), off)
			fh.Close()
			desc = fmt.Sprintf("live overwrite %s [%d,+%d)", name, off, n)
		}
		d, pv, stk := core.DumpDB(db, p.ever)
		res.Add("live_faults", 1)
		if pv != nil {
			res.Violate(fmt.Sprintf("%s: reading the open database panicked: %v", desc, pv), map[string]string{"class": "damage", "fault": "live", "outcome": "panic"}, stk)
		} else {
			for k := range p.ever {
				want, has := p.final.M[k]
				got, listed := d.Vals[k]
				if _, errd := d.Errs[k]; errd {
					res.Add("live_outcome_error", 1)
					continue
				}
				if has && listed && !bytes.Equal(got, want) {
					res.Violate(fmt.Sprintf("%s: Get(%q) on the open database returns %d bytes (h=%s) that are not its written value (%d bytes, h=%s)", desc, k, len(got), core.HashBytes(got)[:8], len(want), core.HashBytes(want)[:8]),
						map[string]string{"class": "damage", "fault": "live", "outcome": "wrong-data"}, map[string]any{"config": cfg, "fault": desc})
					break
				}
				if !has && listed {
					res.Violate(fmt.Sprintf("%s: deleted key %q is served by the open database", desc, k), map[string]string{"class": "damage", "fault": "live", "outcome": "wrong-data"}, nil)
					break
				}
			}
		}
		core.Safe(func() { db.Close() })
		os.RemoveAll(cp)
		if len(res.Violations) >= 6 {
			return res
		}
	}
	// block-aligned file: an older data file whose size is an exact multiple of the 32 KiB block
	// (its last record ends exactly on a boundary), damaged in a record that is followed by
	// newer versions and tombstones: size arithmetic must not turn detection off
	{
		adir := w.Dir("aligned")
		acfg := core.Config{IndexType: cfg.IndexType, ShardNum: 4, FileIO: cfg.FileIO, DataFileSize: 1 << 20}
		at := core.Result{}
		as := core.NewSession(filepath.Join(adir, "db"), acfg, &at)
		if as.Open() {
			as.Exec(core.Op{Kind: "put", Key: []byte("a"), VLen: 90, VSeed: r.U64() | 1})
			as.Exec(core.Op{Kind: "put", Key: []byte("b"), VLen: 70, VSeed: r.U64() | 1})
			as.Exec(core.Op{Kind: "put", Key: []byte("filler"), VLen: r.Range(300, 9000), VSeed: r.U64() | 1})
			as.Exec(core.Op{Kind: "put", Key: []byte("a"), VLen: 95, VSeed: r.U64() | 1})
			as.Exec(core.Op{Kind: "del", Key: []byte("b")})
			files := core.DataFiles(filepath.Join(adir, "db"))
			st, _ := os.Stat(filepath.Join(adir, "db", files[0]))
			nblocks := int64(r.Range(1, 2))
			fitted := false
			if st != nil {
				if v, ok := fitVLen(st.Size(), 1, nblocks*vfmt.Block); ok {
					as.Exec(core.Op{Kind: "put", Key: []byte("c"), VLen: v, VSeed: r.U64() | 1})
					fitted = true
				}
			}
			// rotate: reopen with a limit just above the file's size, then one more put
			small := acfg
			small.DataFileSize = nblocks*vfmt.Block + 100
			as.Exec(core.Op{Kind: "restart", Cfg: &small})
			as.Exec(core.Op{Kind: "put", Key: []byte("post"), VLen: 1900, VSeed: r.U64() | 1})
			as.Exec(core.Op{Kind: "put", Key: []byte("post2"), VLen: 50, VSeed: r.U64() | 1})
			ok := !as.Dead && as.Close() && at.Verdict != "violated"
			files = core.DataFiles(filepath.Join(adir, "db"))
			if st2, err := os.Stat(filepath.Join(adir, "db", files[0])); ok && fitted && err == nil && st2.Size() == nblocks*vfmt.Block && len(files) >= 2 {
				ap := &pristine{root: adir, cfg: small, states: []*core.Model{as.M}, final: as.M, ever: map[string]bool{}, newest: filepath.Join("db", files[len(files)-1])}
				for k := range as.M.Ever {
					ap.ever[k] = true
				}
				orig, _ := os.ReadFile(filepath.Join(adir, "db", files[0]))
				recs, _, _ := vfmt.Scan(orig)
				for t := 0; t < 24 && len(recs) > 3; t++ {
					rc := recs[r.Intn(len(recs)-1)] // any record but the last
					off := rc.Start + int64(r.Intn(int(rc.End-rc.Start)))
					cp := w.Dir("cp")
					mon.CopyTree(adir, cp)
					fh, err := os.OpenFile(filepath.Join(cp, "db", files[0]), os.O_WRONLY, 0644)
					if err != nil {
						continue
					}
					fh.WriteAt([]byte{orig[off] ^ (1 << uint(r.Intn(8)))}, off)
					fh.Close()
					o, v := c12Observe(cp, ap, false, &res)
					res.Add("aligned_file_faults", 1)
					res.Add("outcome_"+strings.ReplaceAll(o, "-", "_"), 1)
					if v != "" {
						res.Violate(fmt.Sprintf("bit flip at offset %d of an older data file of exactly %d bytes: %s", off, len(orig), v),
							map[string]string{"class": "damage", "fault": "bit-flip-aligned-file", "outcome": o}, map[string]any{"config": small, "file_size": len(orig)})
					}
					os.RemoveAll(cp)
				}
			}
		}
		os.RemoveAll(adir)
	}
	// twin faults: a database of uniformly sized records, so that every data file has the same
	// chunk layout; a record is read from one file (which leaves that block in the engine's
	// pooled buffer), then ANOTHER file is truncated below the twin record's offset while the
	// database is open, and the twin is read: stale buffer contents must not be served.
	if cfg.FileIO == 0 {
		udir := w.Dir("uniform")
		ucfg := cfg
		ucfg.DataFileSize = 24 << 10
		udb, uerr := kv.Open(ucfg.Options(filepath.Join(udir, "db")))
		if uerr == nil {
			nrec := 600
			val := func(i int) []byte { return []byte(fmt.Sprintf("value-of-%05d-%s", i, strings.Repeat("v", 60))) }
			for i := 0; i < nrec; i++ {
				udb.Put([]byte(fmt.Sprintf("key-%05d", i)), val(i))
			}
			ufiles := core.DataFiles(filepath.Join(udir, "db"))
			perFile := nrec / max(len(ufiles), 1)
			for t := 0; t < 24 && len(ufiles) >= 3 && perFile > 20; t++ {
				fa, fb := r.Intn(len(ufiles)-1), r.Intn(len(ufiles)-1)
				if fa == fb {
					continue
				}
				slot := r.Range(perFile/2, perFile-2)
				ka, kbi := fa*perFile+slot, fb*perFile+slot
				if _, err := udb.Get([]byte(fmt.Sprintf("key-%05d", ka))); err != nil {
					continue
				}
				pathB := filepath.Join(udir, "db", ufiles[fb])
				stB, _ := os.Stat(pathB)
				if stB == nil || stB.Size() < 64 {
					continue
				}
				orig, _ := os.ReadFile(pathB)
				os.Truncate(pathB, int64(r.Range(1, int(stB.Size())/3)))
				got, gerr := udb.Get([]byte(fmt.Sprintf("key-%05d", kbi)))
				res.Add("live_twin_faults", 1)
				if gerr == nil && !bytes.Equal(got, val(kbi)) {
					res.Violate(fmt.Sprintf("live truncate of %s: Get(key-%05d) on the open database returns %q..., the value written for it is %q...", ufiles[fb], kbi, got[:min(len(got), 20)], val(kbi)[:20]),
						map[string]string{"class": "damage", "fault": "live-twin", "outcome": "wrong-data"}, map[string]any{"config": ucfg, "read_before": fmt.Sprintf("key-%05d", ka)})
				} else if gerr != nil {
					res.Add("live_outcome_error", 1)
				}
				os.WriteFile(pathB, orig, 0644)
			}
			core.Safe(func() { udb.Close() })
		}
		os.RemoveAll(udir)
	}
	// header-targeted faults: every bit of the length and type fields of seed-chosen
	// chunks, preferring block-filling chunks of multi-block records
	{
		name := dfs[r.Intn(len(dfs))]
		rel := filepath.Join("db", name)
		b, _ := os.ReadFile(filepath.Join(root, rel))
		chunks := vfmt.ScanChunks(b)
		var pick []vfmt.Chunk
		for _, ch := range chunks {
			if ch.Type == vfmt.First || ch.Type == vfmt.Middle {
				pick = append(pick, ch)
			}
		}
		for len(pick) > 6 {
			i := r.Intn(len(pick))
			pick = append(pick[:i], pick[i+1:]...)
		}
		for k := 0; k < 6 && len(chunks) > 0; k++ {
			pick = append(pick, chunks[r.Intn(len(chunks))])
		}
		for _, ch := range pick {
			for bit := 0; bit < 24; bit++ {
				cp := w.Dir("cp")
				mon.CopyTree(root, cp)
				path := filepath.Join(cp, rel)
				off := ch.Off + 4 + int64(bit/8)
				fh, err := os.OpenFile(path, os.O_WRONLY, 0644)
				if err != nil {
					os.RemoveAll(cp)
					continue
				}
				fh.WriteAt([]byte{b[off] ^ (1 << uint(bit%8))}, off)
				fh.Close()
				tail := rel == p.newest && (off >= p.lastRec || tornLooking(path))
				o, v := c12Observe(cp, p, tail, &res)
				res.Add("header_bit_faults", 1)
				res.Add("outcome_"+strings.ReplaceAll(o, "-", "_"), 1)
				if v != "" {
					res.Violate(fmt.Sprintf("%s chunk header at %d (type %d, len %d) field bit %d flipped: %s", name, ch.Off, ch.Type, ch.Len, bit, v),
						map[string]string{"class": "damage", "fault": "header-bit", "outcome": o}, map[string]any{"config": cfg, "chunk": ch, "bit": bit})
				}
				if m := c12Reader(path, cc.IO, &res); m != "" {
					res.Violate(fmt.Sprintf("%s chunk header at %d (type %d, len %d) field bit %d flipped: %s", name, ch.Off, ch.Type, ch.Len, bit, m),
						map[string]string{"class": "damage", "fault": "header-bit", "outcome": "reader-panic"}, nil)
				}
				os.RemoveAll(cp)
				if len(res.Violations) >= 6 {
					return res
				}
			}
		}
	}
	res.Nontrivial = len(descs) > 0
	res.Hash = core.HashBytes([]byte(fmt.Sprint(descs)))
	if c.Index%16 == 0 {
		res.Sample = map[string]any{"kind": "damage", "config": cfg, "files": len(dfs), "faults": firstN(descs, 8)}
	}
	return res
}
