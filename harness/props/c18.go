package props

import (
	"bytes"
	"encoding/binary"
	"fmt"
	"os"
	"path/filepath"
	"strconv"
	"strings"

	kv "github.com/XiXi-2024/xixi-kv"
	"verif/harness/core"
	"verif/harness/mon"
	"verif/harness/vfmt"
)

// C18 — hint files faithfully index the merged data files.
type c18 struct{}

func init() { core.Register(c18{}) }

func (c18) ID() string    { return "C18" }
func (c18) Level() string { return "exploration" }
func (c18) Rule() string {
	return "cases = merge scenarios (histories with keys of length 1..2000 incl. keys made of 0x80..0xff bytes and keys that look like a varint prefix followed by data, deletes, batches, 1..6 output files, empty output, second merge over an adopted one with a stale hint file present, a successful merge right after an abandoned one on the same handle, both I/O types); in every third case a writer overwrites or deletes the key Merge is rewriting at the moment the rewritten record is handed to the output file; after EACH successful Merge and before adoption vfmt decodes the hint file and the rewritten data files of <dir>-merge: every entry's (fid, block, offset) must hold a plain record with exactly that key occupying exactly `size` bytes, and the multiset of hinted keys must equal the multiset of keys stored in the rewritten files; then two copies of the directories are opened: A = as left by Merge (adoption through the hint), B = rewritten files moved into place by the harness with no hint file and no merge directory (scan path); dumps, KeyNum and DiskSize-ReclaimableSize of A and B must agree with each other and with the model; the real directory then adopts and is compared too. In every third case the adopting Opens (A, B and the real one) run under a configuration that differs from the one Merge ran under (smaller or larger DataFileSize, other index type, shard count, I/O type): none of these is stored in the directory. Non-trivial: merge whose hint has >=3 entries over >=2 output files incl. >=1 key with a high-bit byte; distinct = hash of (config, op list)"
}
func (c18) Assumptions() []string {
	return []string{"vfmt decodes hint and data files independently of the engine"}
}
func (c18) Required() []string {
	return []string{"merges_audited", "hint_entries_checked", "two_path_opens", "keys_highbit", "multi_file_outputs", "second_merges", "adoptions_under_changed_config", "adoptions_under_smaller_file_size"}
}

func (c18) Cases(tier string, seed uint64) []core.Case {
	n := 160
	if tier == "thorough" {
		n = 40000
	}
	r := core.NewRng(core.Mix(seed, 0xC18))
	var out []core.Case
	for i := 0; i < n; i++ {
		cfg := core.Config{IndexType: core.IndexTypes[i%3], ShardNum: core.ShardNums[r.Intn(6)], FileIO: byte((i / 3) % 2),
			DataFileSize: []int64{4 << 10, 8 << 10, 40 << 10, 1 << 20}[r.Intn(4)]}
		if i%5 == 4 && cfg.DataFileSize > 40<<10 {
			cfg.DataFileSize = 40 << 10
		}
		out = append(out, core.Case{Index: i, ID: fmt.Sprintf("c18-%05d", i), Seed: r.U64(), Data: seqCase{Cfg: cfg, NOps: r.Range(20, 120), NKeys: r.Range(3, 14)}})
	}
	return out
}

func c18Keys(r *core.Rng, n int) [][]byte {
	seen := map[string]bool{}
	var out [][]byte
	for len(out) < n {
		var k []byte
		switch r.Intn(6) {
		case 0:
			k = make([]byte, r.Range(1, 40)) // continuation bytes only
			for i := range k {
				k[i] = byte(0x80 + r.Intn(0x80))
			}
		case 1:
			// looks like a varint prefix followed by data
			k = binary.AppendUvarint(nil, r.U64()>>uint(r.Intn(60)))
			k = binary.AppendUvarint(k, uint64(r.Intn(70000)))
			k = append(k, core.FillValue(r.U64(), r.Range(0, 30))...)
		case 2:
			k = core.FillValue(r.U64(), r.Range(100, 2000))
		default:
			k = core.GenKeys(r, 1)[0]
		}
		if len(k) > 0 && !seen[string(k)] {
			seen[string(k)] = true
			out = append(out, k)
		}
	}
	return out
}

func (c18) Run(c core.Case, w *core.Worker) core.Result {
	sc := c.Data.(seqCase)
	res := core.Result{}
	root := w.Dir("root")
	dir := filepath.Join(root, "db")
	mergeDir := filepath.Join(root, "db-merge")
	io := mon.NewIOLog()
	io.Track = dir
	defer io.Install()()
	r := core.NewRng(c.Seed)
	s := core.NewSession(dir, sc.Cfg, &res)
	s.Spell = c.Index%2 == 1 // every Open spells DirPath differently
	s.IO = io
	keys := c18Keys(r, sc.NKeys)
	hb := 0
	for _, k := range keys {
		for _, b := range k {
			if b >= 0x80 {
				hb++
				break
			}
		}
	}
	g := &core.Gen{R: r, Keys: keys, Cfg: sc.Cfg, EndOff: io.ActiveEnd, NoMerge: true, NoRestart: true, MaxVal: 2500, NoOversize: true}
	feat := func(kind string) map[string]string {
		return map[string]string{"class": "hint", "kind": kind, "io": fmt.Sprint(sc.Cfg.FileIO)}
	}
	fail := func(kind, msg string) {
		res.Violate(fmt.Sprintf("step %d: %s", s.Step, msg), feat(kind), map[string]any{"config": sc.Cfg, "ops_tail": lastN(s.Log, 25)})
		s.Dead = true
	}
	if !s.Open() {
		return res
	}
	if c.Index%5 == 4 {
		// (almost) only live data over several files, then a slightly smaller limit: the
		// rewritten set needs about one file more than were merged, Merge must abandon
		for i := 0; i < r.Range(12, 36) && !s.Dead; i++ {
			s.Exec(core.Op{Kind: "put", Key: []byte(fmt.Sprintf("u%03d", i)), VLen: r.Range(int(sc.Cfg.DataFileSize)/8, int(sc.Cfg.DataFileSize)/3), VSeed: r.U64() | 1})
		}
		small := s.Cfg
		small.DataFileSize = s.Cfg.DataFileSize * int64(r.Range(70, 99)) / 100
		s.Exec(core.Op{Kind: "restart", Cfg: &small})
		sc.NOps = 0
		res.Add("cases_near_output_overflow", 1)
	}
	for round := 0; round < 2 && !s.Dead; round++ {
		n := sc.NOps
		if round == 1 {
			n = r.Range(5, 40)
			if r.Chance(1, 4) {
				// empty output for the second merge: everything deleted
				for _, k := range keys {
					s.Exec(core.Op{Kind: "del", Key: k})
				}
				n = 0
			}
		}
		for i := 0; i < n && !s.Dead; i++ {
			s.Exec(g.Next())
		}
		if s.Dead {
			break
		}
		var merr error
		// in every third case a writer overwrites or deletes the very key Merge is rewriting,
		// at the moment the rewritten record is handed to the output file (after Merge found
		// it live, before it writes the hint entry)
		touched := map[string]bool{}
		if c.Index%3 == 2 {
			io.OnEvent = func(ev mon.Event, buf []byte) {
				if ev.Kind != "io.write" || !strings.HasPrefix(ev.Path, mergeDir+"/") || !strings.HasSuffix(ev.Path, ".data") || !r.Chance(1, 3) {
					return
				}
				recs, _, err := vfmt.ScanAt(buf, ev.Off)
				if err != nil || len(recs) == 0 {
					return
				}
				k := append([]byte{}, recs[0].Key...)
				if r.Chance(3, 4) {
					v := core.FillValue(r.U64()|1, r.Range(0, 300))
					if s.DB.Put(k, v) == nil {
						s.M.Put(k, v)
					}
				} else if s.DB.Delete(k) == nil {
					s.M.Delete(k)
				}
				touched[string(k)] = true
				res.Add("keys_overwritten_while_being_rewritten", 1)
			}
		}
		core.Safe(func() { merr = s.DB.Merge() })
		io.OnEvent = nil
		s.Step++
		s.Log = append(s.Log, fmt.Sprintf("merge->%v", merr))
		if merr != nil {
			res.Add("merges_abandoned", 1)
			if round == 0 && !s.Dead {
				// an abandoned Merge followed, on the SAME handle, by one that succeeds: make
				// room by deleting two thirds of the live keys (nothing the abandoned attempt
				// left behind may show up in the next hint file)
				for i, k := range s.M.Keys() {
					if i%3 != 0 {
						s.Exec(core.Op{Kind: "del", Key: []byte(k)})
					}
				}
				res.Add("merges_retried_on_the_same_handle_after_an_abandoned_one", 1)
				continue
			}
			break
		}
		if round == 1 {
			res.Add("second_merges", 1)
		}
		// ---- audit of the merge output, before adoption
		hints, herr := vfmt.ScanHintFile(filepath.Join(mergeDir, "000000000.hint"))
		if herr != nil && os.IsNotExist(herr) {
			// no hint file = no entries; whether that is faithful is decided by the
			// set comparison and the two-path Open below
			hints, herr = nil, nil
			res.Add("hint_file_absent", 1)
		}
		if herr != nil {
			fail("hint-decode", "hint file does not decode: "+herr.Error())
			break
		}
		mb, err := os.ReadFile(filepath.Join(mergeDir, "000000000.merge-finished"))
		raws, _, merr2 := vfmt.ScanRaw(mb, 0)
		if err != nil || merr2 != nil || len(raws) != 1 || len(raws[0].Payload) != 4 {
			fail("marker", fmt.Sprintf("merge-finished marker does not decode (%v %v)", err, merr2))
			break
		}
		boundary := int(binary.LittleEndian.Uint32(raws[0].Payload))
		files := map[int][]byte{}
		recKeys := map[string]int{}
		nOut := 0
		for _, name := range core.DataFiles(mergeDir) {
			id, _ := strconv.Atoi(strings.TrimSuffix(name, ".data"))
			b, err := os.ReadFile(filepath.Join(mergeDir, name))
			if err != nil {
				fail("read", err.Error())
				break
			}
			files[id] = b
			recs, _, serr := vfmt.Scan(b)
			if serr != nil {
				fail("data-decode", fmt.Sprintf("rewritten file %s does not decode: %v", name, serr))
				break
			}
			if len(recs) > 0 {
				nOut++
			}
			for _, rc := range recs {
				recKeys[string(rc.Key)]++
			}
			if id >= boundary {
				fail("boundary", fmt.Sprintf("rewritten file %s has an id at or above the boundary %d", name, boundary))
			}
		}
		if s.Dead {
			break
		}
		hintKeys := map[string]int{}
		for _, h := range hints {
			res.Add("hint_entries_checked", 1)
			hintKeys[string(h.Key)]++
			b, ok := files[int(h.Fid)]
			if !ok {
				fail("hint-entry", fmt.Sprintf("hint entry for key %q names file %d which is not among the rewritten files", h.Key, h.Fid))
				break
			}
			rc, err := vfmt.RecordAt(b, h.BlockID, h.Off)
			if err != nil {
				fail("hint-entry", fmt.Sprintf("hint entry for key %q -> (file %d, block %d, offset %d): no record decodes there: %v", h.Key, h.Fid, h.BlockID, h.Off, err))
				break
			}
			if !bytes.Equal(rc.Key, h.Key) || rc.Type != vfmt.RecNormal || rc.BatchID != 0 {
				fail("hint-entry", fmt.Sprintf("hint entry for key %q points at a record with key %q type %d batch %d", h.Key, rc.Key, rc.Type, rc.BatchID))
				break
			}
			if rc.Size != h.Size {
				fail("hint-entry", fmt.Sprintf("hint entry for key %q says size %d, the record occupies %d bytes", h.Key, h.Size, rc.Size))
				break
			}
			if touched[string(h.Key)] {
				continue // overwritten while the merge ran: the rewritten copy is legitimately stale
			}
			if mv, ok := s.M.Get(h.Key); !ok || !bytes.Equal(mv, rc.Value) {
				fail("hint-entry", fmt.Sprintf("hinted record for key %q is not the live value", h.Key))
				break
			}
		}
		if s.Dead {
			break
		}
		if len(hintKeys) != len(recKeys) {
			fail("hint-set", fmt.Sprintf("hint names %d distinct keys, rewritten files hold %d", len(hintKeys), len(recKeys)))
			break
		}
		for k, n := range recKeys {
			if hintKeys[k] != n || n != 1 {
				fail("hint-set", fmt.Sprintf("key %q: %d record(s) in the rewritten files, %d hint entr(ies)", k, n, hintKeys[k]))
				break
			}
		}
		if s.Dead {
			break
		}
		res.Add("merges_audited", 1)
		if nOut >= 2 {
			res.Add("multi_file_outputs", 1)
		}
		if len(hints) >= 3 && nOut >= 2 && hb > 0 {
			res.Nontrivial = true
		}
		// ---- two-path Open on copies
		if !s.Close() {
			break
		}
		if c.Index%3 == 1 {
			// the adopting Open runs under another configuration than the Merge did: none of
			// DataFileSize (a rotation threshold only), index type, shard count and I/O type is
			// stored in the directory, so every combination must load the same index
			ncfg := s.Cfg
			ncfg.DataFileSize = []int64{4 << 10, 8 << 10, 16 << 10, 40 << 10, 256 << 10, 1 << 20}[r.Intn(6)]
			if r.Chance(1, 2) {
				ncfg.DataFileSize = max(s.Cfg.DataFileSize/int64(r.Range(2, 16)), 1<<10)
			}
			ncfg.IndexType = core.IndexTypes[r.Intn(3)]
			ncfg.ShardNum = core.ShardNums[r.Intn(6)]
			if r.Chance(1, 2) {
				ncfg.FileIO = 1 - ncfg.FileIO
			}
			if ncfg.DataFileSize < s.Cfg.DataFileSize {
				res.Add("adoptions_under_smaller_file_size", 1)
			}
			s.Log = append(s.Log, "adopting-config "+ncfg.String())
			s.Cfg = ncfg
			res.Add("adoptions_under_changed_config", 1)
		}
		copyA, copyB := w.Dir("A"), w.Dir("B")
		if err := mon.CopyTree(root, copyA); err != nil {
			fail("copy", err.Error())
			break
		}
		mon.CopyTree(root, copyB)
		for id, b := range files {
			os.WriteFile(filepath.Join(copyB, "db", fmt.Sprintf("%09d.data", id)), b, 0644)
		}
		os.RemoveAll(filepath.Join(copyB, "db-merge"))
		os.Remove(filepath.Join(copyB, "db", "000000000.hint"))
		type view struct {
			d    *core.Dump
			live int64
			keyn int
		}
		open := func(root string) (view, string) {
			var v view
			var msg string
			pv, _ := core.Safe(func() {
				db, err := kv.Open(s.Cfg.Options(filepath.Join(root, "db")))
				if err != nil {
					msg = "Open: " + err.Error()
					return
				}
				d, pv2, _ := core.DumpDB(db, s.M.Ever)
				if pv2 != nil {
					msg = fmt.Sprintf("dump panicked: %v", pv2)
				}
				st := db.Stat()
				v = view{d: d, live: st.DiskSize - st.ReclaimableSize, keyn: st.KeyNum}
				db.Close()
			})
			if pv != nil {
				msg = fmt.Sprintf("panic: %v", pv)
			}
			return v, msg
		}
		va, ma := open(copyA)
		vb, mb2 := open(copyB)
		res.Add("two_path_opens", 1)
		if ma != "" || mb2 != "" {
			fail("two-path", fmt.Sprintf("hint-path open: %q; scan-path open: %q", ma, mb2))
			break
		}
		if diff := va.d.Diff(s.M); diff != "" {
			fail("two-path", "hint-path Open differs from the model: "+diff)
			break
		}
		if diff := vb.d.Diff(s.M); diff != "" {
			fail("two-path", "scan-path Open differs from the model: "+diff)
			break
		}
		if va.live != vb.live || va.keyn != vb.keyn {
			fail("two-path", fmt.Sprintf("hint-path Open accounts %d live bytes / %d keys, scan-path Open %d / %d", va.live, va.keyn, vb.live, vb.keyn))
			break
		}
		os.RemoveAll(copyA)
		os.RemoveAll(copyB)
		// ---- the real directory adopts
		if !s.Open() {
			break
		}
		s.CheckDump("after-adoption")
		if !s.Dead {
			s.Exec(core.Op{Kind: "restart"})
		}
	}
	if s.DB != nil {
		s.Close()
	}
	res.Add("keys_highbit", int64(hb))
	res.Hash = core.HashBytes([]byte(sc.Cfg.String()), []byte(fmt.Sprint(s.Log)))
	if c.Index < 2 {
		res.Sample = map[string]any{"config": sc.Cfg, "ops_tail": lastN(s.Log, 20), "nkeys": len(keys)}
	}
	return res
}
