package props

import (
	"bytes"
	"errors"
	"fmt"
	"math"
	"time"

	kv "github.com/XiXi-2024/xixi-kv"
	"github.com/XiXi-2024/xixi-kv/datatype"
	"verif/harness/core"
)

// C19 — Redis-style structures behave like their abstract types and survive restart.
type c19 struct{}

func init() { core.Register(c19{}) }

func (c19) ID() string    { return "C19" }
func (c19) Level() string { return "exploration" }
func (c19) Rule() string {
	return "cases = command sequences of 50..400 commands over 3..6 keys x 3..5 fields/members mixing strings with TTL (0, +10 min, +1 h, +10^4 h, -1 ms, -1 h, 250 years, MaxInt64: the nearest deadline is 10 minutes away, so expiry never depends on when the check runs; plus, in every second case (thorough: every 17th), four probe keys on which a Set with a 20 ms / 1 h / no deadline is followed by a Set of the SAME bytes with another deadline, judged 200 ms later and again after the restart: the later deadline alone decides), hashes, sets, lists (push/pop at both ends, pops on empty lists) and sorted sets (score updates, re-adding with the same score; scores incl. NaN, +-Inf, -0, negative and denormal values), wrong-type commands on every type pair, Del + re-creation with another type, commands on expired strings, and 1..4 restarts; store with small DataFileSize so that structure updates span rotations, all index types and both I/O types. In every second case key and field/member are passed as sub-slices of one packet buffer (the key slice has spare capacity holding the next argument), as a network front-end would. Every reply is normalised to an abstract outcome (present(v) / absent / bool / size / score / type / wrong-type) and compared with an in-memory reference model of the five types, immediately and again for a full read-back of all keys/fields/members after every restart. Non-trivial: sequence using >=4 of the 5 types, >=1 wrong-type reply, >=1 Del + re-creation and >=1 restart; distinct = hash of (config, command log)"
}
func (c19) Assumptions() []string {
	return []string{"absence encodings ((nil,nil), ErrKeyNotFound, (-1,nil)) are normalised to `absent`", "string values are non-empty; hash fields and list elements may be empty, in which case HGet/LPop/RPop replies are compared modulo `empty == absent` (the API cannot tell them apart) while HSet/HDel flags and sizes are compared exactly",
		"a container emptied by removals keeps its type until Del (the model follows the engine here; the statement does not say)", "TTL only far past / far future (incl. time.Duration(MaxInt64) and 250 years, whose stored deadline overflows int64 nanoseconds)", "members/fields are short strings that cannot collide with the internal key encoding", "scores are never -1 (ZScore encodes absence as -1)"}
}
func (c19) Required() []string {
	return []string{"replies_compared", "wrong_type_replies", "restarts", "del_recreate", "expired_key_commands", "readback_compared", "ttl_replacement_probes"}
}

func (c19) Cases(tier string, seed uint64) []core.Case {
	n := 240
	if tier == "thorough" {
		n = 200000
	}
	r := core.NewRng(core.Mix(seed, 0xC19))
	var out []core.Case
	for i := 0; i < n; i++ {
		cfg := core.RandConfig(r)
		cfg.IndexType = core.IndexTypes[i%3]
		cfg.FileIO = byte((i / 3) % 2)
		cfg.DataFileSize = []int64{4 << 10, 8 << 10, 40 << 10}[r.Intn(3)]
		// deadline-replacement probes sleep 200 ms: every second case (quick), every 17th (thorough)
		probe := 0
		if (tier != "thorough" && i%2 == 1) || i%17 == 1 {
			probe = 1
		}
		out = append(out, core.Case{Index: i, ID: fmt.Sprintf("c19-%05d", i), Seed: r.U64(), Data: seqCase{Cfg: cfg, NOps: r.Range(50, 400), NKeys: r.Range(3, 6), Flag: probe}})
	}
	return out
}

const (
	tStr  = 0
	tHash = 1
	tSet  = 2
	tList = 3
	tZSet = 4
)

type c19Obj struct {
	typ     byte
	str     []byte
	expired bool
	hash    map[string][]byte
	set     map[string]bool
	list    [][]byte
	zset    map[string]float64
}

func newObj(t byte) *c19Obj {
	return &c19Obj{typ: t, hash: map[string][]byte{}, set: map[string]bool{}, zset: map[string]float64{}}
}

// abstract outcome as a string
func outVal(v []byte, err error) string {
	switch {
	case errors.Is(err, datatype.ErrWrongTypeOperation):
		return "wrong-type"
	case errors.Is(err, kv.ErrKeyNotFound):
		return "absent"
	case err != nil:
		return "error:" + err.Error()
	case v == nil:
		return "absent"
	}
	return "present:" + core.HashBytes(v)[:10] + fmt.Sprintf("/%d", len(v))
}
func wantVal(v []byte) string {
	if len(v) == 0 {
		// a stored empty element and absence are the same reply of HGet/LPop/RPop
		return "absent"
	}
	return "present:" + core.HashBytes(v)[:10] + fmt.Sprintf("/%d", len(v))
}
func outBool(b bool, err error) string {
	switch {
	case errors.Is(err, datatype.ErrWrongTypeOperation):
		return "wrong-type"
	case err != nil:
		return "error:" + err.Error()
	}
	return fmt.Sprint(b)
}

func (c19) Run(c core.Case, w *core.Worker) core.Result {
	sc := c.Data.(seqCase)
	res := core.Result{}
	r := core.NewRng(c.Seed)
	dir := w.Dir("db")
	opts := sc.Cfg.Options(dir)
	var svc *datatype.DataTypeService
	var err error
	var logl []string
	feat := map[string]string{"class": "datatype", "io": fmt.Sprint(sc.Cfg.FileIO), "index": fmt.Sprint(sc.Cfg.IndexType)}
	dead := false
	fail := func(cmd, got, want string) {
		f := map[string]string{}
		for k, v := range feat {
			f[k] = v
		}
		f["cmd"] = cmd
		res.Violate(fmt.Sprintf("command %d: %s replied %s, reference model says %s", len(logl), logl[len(logl)-1], got, want), f, map[string]any{"config": sc.Cfg, "commands_tail": lastN(logl, 30)})
		dead = true
	}
	open := func() bool {
		pv, st := core.Safe(func() { svc, err = datatype.NewDataTypeService(opts) })
		if pv != nil || err != nil {
			res.Violate(fmt.Sprintf("NewDataTypeService failed: %v %v", pv, err), feat, st)
			return false
		}
		return true
	}
	if !open() {
		return res
	}
	model := map[string]*c19Obj{}
	live := func(k string) *c19Obj {
		o := model[k]
		if o != nil && o.typ == tStr && o.expired {
			return nil
		}
		return o
	}
	keys := []string{}
	for i := 0; i < sc.NKeys; i++ {
		keys = append(keys, fmt.Sprintf("k%d", i))
	}
	elems := []string{"f0", "f1", "f2", "f3", "f4"}[:r.Range(3, 5)]
	numeric := c.Index%3 == 1
	if numeric {
		// members that are the decimal text of scores (followed by other members): the two kinds
		// of internal sorted-set keys must not run into each other
		elems = []string{"1", "23", "123", "12", "3", "2"}[:r.Range(4, 6)]
	}
	typesUsed := map[byte]bool{}
	cmp := func(cmd, got, want string) {
		res.Add("replies_compared", 1)
		if got == "wrong-type" {
			res.Add("wrong_type_replies", 1)
		}
		if got != want {
			fail(cmd, got, want)
		}
	}
	// container access in the model: returns (obj, wrongType). create=true creates when absent.
	access := func(k string, t byte, create bool) (*c19Obj, bool) {
		raw := model[k]
		if raw != nil && raw.typ == tStr && raw.expired {
			res.Add("expired_key_commands", 1)
		}
		o := live(k)
		if o == nil {
			if create {
				if _, existed := model[k]; !existed {
					_ = existed
				}
				o = newObj(t)
				model[k] = o
			}
			return o, false
		}
		if o.typ != t {
			return nil, true
		}
		return o, false
	}
	val := func() []byte { return core.FillValue(r.U64(), r.Range(1, 300)) }
	deleted := map[string]bool{}
	readback := func() {
		// full read-back of every key / field / member through the API
		for _, k := range keys {
			o := live(k)
			// strings
			v, e := svc.Get([]byte(k))
			want := "absent"
			if o != nil {
				if o.typ == tStr {
					want = wantVal(o.str)
				} else {
					want = "wrong-type"
				}
			}
			logl = append(logl, fmt.Sprintf("readback Get(%s)", k))
			res.Add("readback_compared", 1)
			if got := outVal(v, e); got != want {
				fail("Get", got, want)
				return
			}
			if o == nil || o.typ == tStr {
				continue
			}
			for _, f := range elems {
				var got, wantS string
				switch o.typ {
				case tHash:
					v, e := svc.HGet([]byte(k), []byte(f))
					got = outVal(v, e)
					wantS = "absent"
					if hv, ok := o.hash[f]; ok {
						wantS = wantVal(hv)
					}
					logl = append(logl, fmt.Sprintf("readback HGet(%s,%s)", k, f))
				case tSet:
					b, e := svc.SIsMember([]byte(k), []byte(f))
					got = outBool(b, e)
					wantS = fmt.Sprint(o.set[f])
					logl = append(logl, fmt.Sprintf("readback SIsMember(%s,%s)", k, f))
				case tZSet:
					sc, e := svc.ZScore([]byte(k), []byte(f))
					got = outScore(sc, e)
					wantS = "absent"
					if zs, ok := o.zset[f]; ok {
						wantS = fmtScore(zs)
					}
					logl = append(logl, fmt.Sprintf("readback ZScore(%s,%s)", k, f))
				default:
					continue
				}
				res.Add("readback_compared", 1)
				if got != wantS {
					fail("readback", got, wantS)
					return
				}
			}
		}
	}
	nRestarts := r.Range(1, 4)
	restartAt := map[int]bool{}
	for i := 0; i < nRestarts; i++ {
		restartAt[r.Range(5, sc.NOps)] = true
	}
	for i := 0; i < sc.NOps && !dead; i++ {
		if restartAt[i] {
			logl = append(logl, "restart")
			if cerr := svc.Close(); cerr != nil {
				res.Violate("Close failed: "+cerr.Error(), feat, nil)
				break
			}
			if !open() {
				break
			}
			res.Add("restarts", 1)
			readback()
			continue
		}
		k := keys[r.Intn(len(keys))]
		e := elems[r.Intn(len(elems))]
		kb, eb := []byte(k), []byte(e)
		if c.Index%2 == 0 {
			// arguments handed over the way a network server does: key and field/member are
			// sub-slices of ONE packet buffer, so the key slice has spare capacity that holds
			// live data (the next argument)
			pk := append(append(append([]byte{}, k...), e...), "\r\n$5\r\nvalue\r\n-live-packet-bytes-"...)
			kb, eb = pk[:len(k)], pk[len(k):len(k)+len(e)]
		}
		pv, st := core.Safe(func() {
			switch cmd := r.Intn(19); cmd {
			case 0: // Set
				// "for ever" TTLs overflow the stored deadline; they must behave as far future
				// +10 min / +1 h are "present now" with a margin no run comes near; they expose a
				// deadline computed in the wrong unit (the key would already have expired)
				ttl := []time.Duration{0, 10000 * time.Hour, -time.Hour, time.Duration(1<<63 - 1), 250 * 365 * 24 * time.Hour, 10 * time.Minute, time.Hour, -time.Millisecond}[r.Intn(8)]
				v := val()
				logl = append(logl, fmt.Sprintf("Set(%s,len=%d,ttl=%v)", k, len(v), ttl))
				err := svc.Set(kb, v, ttl)
				got := "ok"
				if err != nil {
					got = "error:" + err.Error()
				}
				cmp("Set", got, "ok")
				o := newObj(tStr)
				o.str = v
				o.expired = ttl < 0
				model[k] = o
				typesUsed[tStr] = true
			case 1: // Get
				logl = append(logl, fmt.Sprintf("Get(%s)", k))
				v, err := svc.Get(kb)
				want := "absent"
				if raw := model[k]; raw != nil && raw.typ == tStr && raw.expired {
					res.Add("expired_key_commands", 1)
				}
				if o := live(k); o != nil {
					if o.typ == tStr {
						want = wantVal(o.str)
					} else {
						want = "wrong-type"
					}
				}
				cmp("Get", outVal(v, err), want)
			case 2: // HSet
				v := val()
				if r.Chance(1, 6) {
					v = []byte{} // empty field value: HSet/HDel replies and sizes stay decidable
					res.Add("empty_element_values", 1)
				}
				logl = append(logl, fmt.Sprintf("HSet(%s,%s,len=%d)", k, e, len(v)))
				b, err := svc.HSet(kb, eb, v)
				o, wt := access(k, tHash, true)
				if wt {
					cmp("HSet", outBool(b, err), "wrong-type")
					return
				}
				_, had := o.hash[e]
				o.hash[e] = v
				typesUsed[tHash] = true
				cmp("HSet", outBool(b, err), fmt.Sprint(!had))
			case 3: // HGet
				logl = append(logl, fmt.Sprintf("HGet(%s,%s)", k, e))
				v, err := svc.HGet(kb, eb)
				o, wt := access(k, tHash, false)
				want := "absent"
				if wt {
					want = "wrong-type"
				} else if o != nil {
					if hv, ok := o.hash[e]; ok {
						want = wantVal(hv)
					}
				}
				cmp("HGet", outVal(v, err), want)
			case 4: // HDel
				logl = append(logl, fmt.Sprintf("HDel(%s,%s)", k, e))
				b, err := svc.HDel(kb, eb)
				o, wt := access(k, tHash, false)
				want := "false"
				if wt {
					want = "wrong-type"
				} else if o != nil {
					if _, ok := o.hash[e]; ok {
						want = "true"
						delete(o.hash, e)
					}
				}
				cmp("HDel", outBool(b, err), want)
			case 5: // SAdd
				logl = append(logl, fmt.Sprintf("SAdd(%s,%s)", k, e))
				b, err := svc.SAdd(kb, eb)
				o, wt := access(k, tSet, true)
				if wt {
					cmp("SAdd", outBool(b, err), "wrong-type")
					return
				}
				had := o.set[e]
				o.set[e] = true
				typesUsed[tSet] = true
				cmp("SAdd", outBool(b, err), fmt.Sprint(!had))
			case 6: // SIsMember
				logl = append(logl, fmt.Sprintf("SIsMember(%s,%s)", k, e))
				b, err := svc.SIsMember(kb, eb)
				o, wt := access(k, tSet, false)
				want := "false"
				if wt {
					want = "wrong-type"
				} else if o != nil && o.set[e] {
					want = "true"
				}
				cmp("SIsMember", outBool(b, err), want)
			case 7: // SRem
				logl = append(logl, fmt.Sprintf("SRem(%s,%s)", k, e))
				b, err := svc.SRem(kb, eb)
				o, wt := access(k, tSet, false)
				want := "false"
				if wt {
					want = "wrong-type"
				} else if o != nil && o.set[e] {
					want = "true"
					delete(o.set, e)
				}
				cmp("SRem", outBool(b, err), want)
			case 8, 9: // LPush / RPush
				left := cmd == 8
				v := val()
				if r.Chance(1, 8) {
					v = []byte{}
					res.Add("empty_element_values", 1)
				}
				name := "RPush"
				if left {
					name = "LPush"
				}
				logl = append(logl, fmt.Sprintf("%s(%s,len=%d)", name, k, len(v)))
				var n uint32
				var err error
				if left {
					n, err = svc.LPush(kb, v)
				} else {
					n, err = svc.RPush(kb, v)
				}
				o, wt := access(k, tList, true)
				if wt {
					cmp(name, outSize(n, err), "wrong-type")
					return
				}
				if left {
					o.list = append([][]byte{v}, o.list...)
				} else {
					o.list = append(o.list, v)
				}
				typesUsed[tList] = true
				cmp(name, outSize(n, err), fmt.Sprintf("size:%d", len(o.list)))
			case 10, 11: // LPop / RPop
				left := cmd == 10
				name := "RPop"
				if left {
					name = "LPop"
				}
				logl = append(logl, fmt.Sprintf("%s(%s)", name, k))
				var v []byte
				var err error
				if left {
					v, err = svc.LPop(kb)
				} else {
					v, err = svc.RPop(kb)
				}
				o, wt := access(k, tList, false)
				want := "absent"
				if wt {
					want = "wrong-type"
				} else if o != nil && len(o.list) > 0 {
					if left {
						want = wantVal(o.list[0])
						o.list = o.list[1:]
					} else {
						want = wantVal(o.list[len(o.list)-1])
						o.list = o.list[:len(o.list)-1]
					}
				} else {
					res.Add("pops_on_empty", 1)
				}
				cmp(name, outVal(v, err), want)
			case 12, 13: // ZAdd
				score := float64(r.Range(0, 9)) + float64(r.Intn(4))/4 // never -1: ZScore encodes absence as -1
				if numeric && r.Chance(2, 3) {
					score = float64([]int{1, 2, 12, 3, 23}[r.Intn(5)])
				}
				switch r.Intn(5) {
				case 0:
					// scores that need all 17 significant digits, large integers, tiny and huge magnitudes
					score = float64(r.U64()>>11) / float64(uint64(1)<<53) * float64(r.Range(1, 1000))
				case 1:
					score = float64(r.U64() >> uint(r.Range(1, 40)))
				case 2:
					score = float64(r.Range(1, 999)) / 3 * []float64{1e-9, 1, 1e12, 1e-300, 1e200}[r.Intn(5)]
				}
				if r.Chance(1, 10) {
					// legal but unusual floats: not-a-number (unequal to itself), infinities,
					// negative zero, negative values, the smallest denormal
					score = []float64{math.NaN(), math.Inf(1), math.Inf(-1), math.Copysign(0, -1), -2.5, -1e300, 5e-324}[r.Intn(7)]
					res.Add("zadd_special_floats", 1)
				}
				if score == -1 {
					score = 1
				}
				res.Add("zadd_scores", 1)
				o0, wt0 := access(k, tZSet, false)
				if cmd == 13 && !wt0 && o0 != nil {
					if s0, ok := o0.zset[e]; ok && r.Chance(1, 2) {
						score = s0 // re-add with the same score
					}
				}
				logl = append(logl, fmt.Sprintf("ZAdd(%s,%v,%s)", k, score, e))
				b, err := svc.ZAdd(kb, score, eb)
				o, wt := access(k, tZSet, true)
				if wt {
					cmp("ZAdd", outBool(b, err), "wrong-type")
					return
				}
				_, had := o.zset[e]
				o.zset[e] = score
				typesUsed[tZSet] = true
				cmp("ZAdd", outBool(b, err), fmt.Sprint(!had))
			case 14: // ZScore
				logl = append(logl, fmt.Sprintf("ZScore(%s,%s)", k, e))
				sc, err := svc.ZScore(kb, eb)
				o, wt := access(k, tZSet, false)
				want := "absent"
				if wt {
					want = "wrong-type"
				} else if o != nil {
					if zs, ok := o.zset[e]; ok {
						want = fmtScore(zs)
					}
				}
				cmp("ZScore", outScore(sc, err), want)
			case 15, 16: // Del
				logl = append(logl, fmt.Sprintf("Del(%s)", k))
				err := svc.Del(kb)
				got := "ok"
				if err != nil {
					got = "error:" + err.Error()
				}
				if model[k] != nil {
					deleted[k] = true
				}
				delete(model, k)
				cmp("Del", got, "ok")
			default: // Type (only on keys that are not expired strings: see assumptions)
				if raw := model[k]; raw != nil && raw.typ == tStr && raw.expired {
					return
				}
				logl = append(logl, fmt.Sprintf("Type(%s)", k))
				t, err := svc.Type(kb)
				want := "absent"
				if o := live(k); o != nil {
					want = fmt.Sprintf("type:%d", o.typ)
				}
				got := fmt.Sprintf("type:%d", t)
				if errors.Is(err, kv.ErrKeyNotFound) {
					got = "absent"
				} else if err != nil {
					got = "error:" + err.Error()
				}
				cmp("Type", got, want)
			}
		})
		if pv != nil {
			res.Violate(fmt.Sprintf("command %d (%s) panicked: %v", len(logl), logl[len(logl)-1], pv), feat, st)
			break
		}
		if deleted[k] && model[k] != nil {
			res.Add("del_recreate", 1)
			deleted[k] = false
		}
	}
	// deadline replacement: a later Set replaces the earlier deadline even when the VALUE is
	// byte-identical. Keys outside the model; 20 ms deadlines, judged after a 200 ms sleep
	// (a stall between the two Sets only makes the first deadline pass, which changes nothing).
	type ttlProbe struct {
		key          string
		first, later time.Duration
		want         string
	}
	var probes []ttlProbe
	if sc.Flag == 1 && !dead && res.Verdict != "violated" {
		pvv := []byte("same-bytes-both-times")
		probes = []ttlProbe{{"ttl-probe-persist", 20 * time.Millisecond, 0, wantVal(pvv)}, {"ttl-probe-expire", 0, 20 * time.Millisecond, "absent"},
			{"ttl-probe-extend", 20 * time.Millisecond, time.Hour, wantVal(pvv)}, {"ttl-probe-shorten", time.Hour, 20 * time.Millisecond, "absent"}}
		core.Safe(func() {
			for _, p := range probes {
				logl = append(logl, fmt.Sprintf("Set(%s,same value,ttl=%v); Set(%s,same value,ttl=%v)", p.key, p.first, p.key, p.later))
				if e1, e2 := svc.Set([]byte(p.key), pvv, p.first), svc.Set([]byte(p.key), pvv, p.later); e1 != nil || e2 != nil {
					fail("Set", fmt.Sprintf("error:%v/%v", e1, e2), "ok")
				}
			}
		})
		time.Sleep(200 * time.Millisecond)
	}
	checkProbes := func(when string) {
		for _, p := range probes {
			if dead {
				return
			}
			logl = append(logl, fmt.Sprintf("Get(%s) %s, 200 ms after Set(ttl=%v); Set(ttl=%v) of one value", p.key, when, p.first, p.later))
			v, e := svc.Get([]byte(p.key))
			res.Add("ttl_replacement_probes", 1)
			if got := outVal(v, e); got != p.want {
				fail("Get", got, p.want)
			}
		}
	}
	core.Safe(func() { checkProbes("before the restart") })
	if !dead && res.Verdict != "violated" {
		logl = append(logl, "restart")
		if svc.Close() == nil && open() {
			res.Add("restarts", 1)
			readback()
			core.Safe(func() { checkProbes("after the restart") })
		}
	}
	core.Safe(func() { svc.Close() })
	_ = bytes.Equal
	res.Nontrivial = len(typesUsed) >= 4 && res.Counters["wrong_type_replies"] > 0 && res.Counters["del_recreate"] > 0 && res.Counters["restarts"] > 0
	res.Hash = core.HashBytes([]byte(sc.Cfg.String()), []byte(fmt.Sprint(logl)))
	if c.Index < 2 {
		res.Sample = map[string]any{"config": sc.Cfg, "commands": firstN(logl, 40), "total": len(logl)}
	}
	return res
}

func outSize(n uint32, err error) string {
	switch {
	case errors.Is(err, datatype.ErrWrongTypeOperation):
		return "wrong-type"
	case err != nil:
		return "error:" + err.Error()
	}
	return fmt.Sprintf("size:%d", n)
}

func outScore(s float64, err error) string {
	switch {
	case errors.Is(err, datatype.ErrWrongTypeOperation):
		return "wrong-type"
	case errors.Is(err, kv.ErrKeyNotFound):
		return "absent"
	case err != nil:
		return "error:" + err.Error()
	case s == -1:
		return "absent"
	}
	return fmtScore(s)
}

// fmtScore renders a score for comparison: scores are compared as numbers, so the two zeros
// are one value (ZAdd(-0) followed by ZAdd(0) is "score unchanged" for the engine and leaves
// -0 stored, which is equal to the 0 the caller asked for); NaN is rendered as itself.
func fmtScore(x float64) string {
	if x == 0 {
		x = 0
	}
	return fmt.Sprintf("score:%v", x)
}
