package props

import (
	"fmt"
	"path/filepath"
	"time"

	"verif/harness/core"
	"verif/harness/mon"
)

// C03 — crash recovery exposes a prefix of the acknowledged history.
type c03 struct{}

func init() { core.Register(c03{}) }

func (c03) ID() string    { return "C03" }
func (c03) Level() string { return "fault_enumeration" }
func (c03) Rule() string {
	return "cases = sequential workloads (puts, deletes, batches, explicit Sync, rotations, oversized values, clean restarts) per (SyncStrategy, FileIOType, DataFileSize); at EVERY hooked I/O event of the run (open/create, write before+after, sync before+after, truncate, map, close) whose on-disk or durability state differs from the previous image, three image classes are built from a byte-exact copy of the directory and reopened twice with the real Open (every 24th recovered image, every 6th when a mutation was in flight, is then USED: put, committed batch, Sync, an unsynced put, clean restart, and under standard I/O a second crash tearing the unsynced put): process death (admissible S_a or in-flight S_a+1), process death inside the write (first p bytes of the buffer, p at record/block/page boundaries +-8 and random), power loss (each unsynced tail cut to record/block boundaries +-8, random lengths, all lengths for tails <=48 B; zero-filled for pre-extended mmap files; admissible S_j, d<=j<=a+1 with d computed from durable offsets). Non-trivial case: >=1 rotation, >=1 batch, and >=20 images; distinct = hash of (config, op list)"
}
func (c03) Assumptions() []string {
	return []string{"power loss = loss of unsynced file tails only (no directory-entry loss, no reordering inside the synced prefix)",
		"a completed fsync/msync event makes the bytes written before it durable", "mmap write-back modelled as an arbitrary prefix of the unsynced tail surviving",
		"crash instants are the hooked I/O events of the executed workloads (exhaustive over those)"}
}
func (c03) Required() []string {
	return []string{"images_process_death", "images_partial_write", "images_power_loss", "image_opens", "io.write", "io.syncDone"}
}

type c03Case struct {
	Cfg  core.Config
	NOps int
}

func (c03) CaseBudget(tier string) time.Duration {
	// measured: the heaviest thorough case needs ~12 min of one worker on an idle machine and
	// more than 15 under load; a watchdog firing is only ever inconclusive or a reproduced hang
	if tier == "thorough" {
		return 3600 * time.Second
	}
	return 900 * time.Second
}

func (c03) Cases(tier string, seed uint64) []core.Case {
	n := 16
	if tier == "thorough" {
		n = 160
	}
	r := core.NewRng(core.Mix(seed, 0xC03))
	var out []core.Case
	for i := 0; i < n; i++ {
		sm := core.SyncModes[i%len(core.SyncModes)]
		cfg := core.Config{IndexType: core.IndexTypes[r.Intn(3)], ShardNum: core.ShardNums[r.Intn(5)], FileIO: byte((i / len(core.SyncModes)) % 2),
			DataFileSize: []int64{4 << 10, 40 << 10, 64 << 10}[r.Intn(3)], Sync: sm.S, BytesPerSync: sm.B}
		if cfg.FileIO == 1 && cfg.DataFileSize < 40<<10 && tier != "thorough" {
			// quick: an mmap image with dozens of 4 KiB files costs ~50 mappings per reopen
			cfg.DataFileSize = 40 << 10
		}
		nops := r.Range(30, 55)
		if tier == "thorough" {
			nops = r.Range(30, 90)
		}
		out = append(out, core.Case{Index: i, ID: fmt.Sprintf("c03-%04d", i), Seed: r.U64(), Data: c03Case{Cfg: cfg, NOps: nops}})
	}
	return out
}

func newCrashRun(w *core.Worker, res *core.Result, cfg core.Config, r *core.Rng, prop string) (*crashRun, *mon.IOLog) {
	root := w.Dir("root")
	io := mon.NewIOLog()
	cr := &crashRun{w: w, res: res, io: io, root: root, cfg: cfg, r: r.Fork(), tier: w.Tier, prop: prop,
		powerLoss: true, partial: true, maxCuts: 10, maxPartials: 8, ever: map[string]bool{}, contEvery: 24}
	if w.Tier == "thorough" {
		// thorough spends its budget on ten times as many workloads rather than on denser
		// sampling per event (measured: a workload costs ~100 s of one worker at 10/8)
		cr.maxCuts, cr.maxPartials = 12, 10
	}
	io.Track = filepath.Join(root, "db")
	io.OnEvent = cr.onEvent
	cr.states = []*core.Model{core.NewModel()}
	cr.mutBytes = [][]wrange{nil}
	return cr, io
}

// runMut executes op through the session, maintaining the oracle state.
func (cr *crashRun) runMut(s *core.Session, op core.Op) bool {
	if isMutation(op) {
		cr.pending = applyOp(s.M, op)
		cr.curMut = len(cr.states)
	}
	ok := s.Exec(op)
	if isMutation(op) {
		if ok {
			cr.states = append(cr.states, s.M.Clone())
			for len(cr.mutBytes) < len(cr.states) {
				cr.mutBytes = append(cr.mutBytes, nil)
			}
		}
		cr.pending = nil
		cr.curMut = 0
	}
	return ok
}

func (c03) Run(c core.Case, w *core.Worker) core.Result {
	cc := c.Data.(c03Case)
	res := core.Result{}
	r := core.NewRng(c.Seed)
	cr, io := newCrashRun(w, &res, cc.Cfg, r, "C03")
	defer io.Install()()
	s := core.NewSession(cr.dbDir(), cc.Cfg, &res)
	s.IO = io
	s.FullEvery = 0
	cr.log = func() []string { return s.Log }
	keys := core.GenKeys(r, r.Range(3, 7))
	for _, k := range keys {
		cr.ever[string(k)] = true
	}
	cr.ever["~after-crash"] = true
	g := &core.Gen{R: r, Keys: keys, Cfg: cc.Cfg, EndOff: io.ActiveEnd, NoMerge: true, MaxVal: 70 << 10}
	cr.enabled = true
	if !s.Open() {
		return res
	}
	for i := 0; i < cc.NOps && !s.Dead && res.Verdict != "violated"; i++ {
		op := g.Next()
		switch op.Kind {
		case "listkeys", "fold", "stat", "get":
			if r.Chance(2, 3) {
				op = g.Put()
			}
		}
		if i%7 == 3 {
			// a record of several blocks: unsynced tails then contain block boundaries that lie
			// inside a record (its first chunks intact, the rest lost)
			op = core.Op{Kind: "put", Key: g.Key(), VLen: r.Range(33<<10, 69<<10), VSeed: r.U64() | 1}
			res.Add("multi_block_records_written", 1)
		}
		if !cr.runMut(s, op) {
			break
		}
	}
	if s.DB != nil && !s.Dead {
		s.Close()
	}
	cr.enabled = false
	n := res.Counters["images_process_death"] + res.Counters["images_partial_write"] + res.Counters["images_power_loss"]
	res.Nontrivial = res.Counters["ops_batch"] > 0 && n >= 20 && res.Counters["io.open"] > 2
	res.Hash = core.HashBytes([]byte(cc.Cfg.String()), []byte(fmt.Sprint(s.Log)))
	res.SetAdd("config", cc.Cfg.String())
	if c.Index < 2 {
		res.Sample = map[string]any{"config": cc.Cfg, "ops": firstN(s.Log, 30), "total_ops": len(s.Log), "images": n, "acked_mutations": len(cr.states) - 1}
	}
	return res
}
