package props

import (
	"fmt"

	"verif/harness/core"
	"verif/harness/mon"
)

// C15 — caller buffers are never retained or modified; returned values never change.
type c15 struct{}

func init() { core.Register(c15{}) }

func (c15) ID() string    { return "C15" }
func (c15) Level() string { return "exploration" }
func (c15) Rule() string {
	return "cases = generated op sequences (puts, deletes, gets, batches with repeated puts/deletes/gets on one key, restarts, merges) per index type x I/O type in which the harness owns exactly ONE key buffer and ONE value buffer (with spare capacity) used for every DB and Batch call; after each return both buffers are filled over their full capacity with a step-dependent poison pattern; before the next call and after it the pattern must be intact (the engine never writes into caller memory); the model is fed with private copies, and the per-step Get plus the periodic full dump (ListKeys/Fold keys come straight out of the index) detect any dependence of the database on the poisoned buffers; every non-empty slice returned by DB.Get and Batch.Get is kept with a private copy and re-compared after every later operation for 50 steps and at the end. Non-trivial: case with >=1 batch that re-puts a staged key, >=20 retained slices and >=1 restart; distinct = hash of (config, op list) Every third compared Get is followed by a second Get whose RESULT the harness overwrites with garbage and a third Get that must still return the stored value (and the first result must be unchanged); values handed to the Fold callback are overwritten by the callback. Values whose length is a power of two or a multiple of 4096 (and every ninth value) are passed as freshly allocated slices with len == cap, poisoned after the call and watched for the rest of the case."
}
func (c15) Assumptions() []string {
	return []string{"a buffer the harness had to re-allocate (key or value longer than its capacity) is no longer watched", "thorough tier runs under -race, i.e. with checkptr instrumentation"}
}
func (c15) Required() []string {
	return []string{"canary_checks", "retained_slice_checks", "retained_slices", "gets_after_scribbling_a_returned_slice", "exact_size_value_slices_watched", "batch_reputs", "compared_calls", "restarts"}
}

func (c15) Cases(tier string, seed uint64) []core.Case {
	n := 240
	if tier == "thorough" {
		n = 3000
	}
	r := core.NewRng(core.Mix(seed, 0xC15))
	var out []core.Case
	for i := 0; i < n; i++ {
		cfg := core.RandConfig(r)
		cfg.IndexType = core.IndexTypes[i%3]
		cfg.FileIO = byte((i / 3) % 2)
		out = append(out, core.Case{Index: i, ID: fmt.Sprintf("c15-%05d", i), Seed: r.U64(), Data: seqCase{Cfg: cfg, NOps: r.Range(60, 300), NKeys: r.Range(3, 9)}})
	}
	return out
}

func (c15) Run(c core.Case, w *core.Worker) core.Result {
	sc := c.Data.(seqCase)
	res := core.Result{}
	dir := w.Dir("db")
	io := mon.NewIOLog()
	io.Track = dir
	defer io.Install()()
	s := core.NewSession(dir, sc.Cfg, &res)
	s.IO = io
	s.ReuseBuf, s.Canary = true, true
	r := core.NewRng(c.Seed)
	keys := core.GenKeys(r, sc.NKeys)
	g := &core.Gen{R: r, Keys: keys, Cfg: sc.Cfg, EndOff: io.ActiveEnd, MaxVal: 140 << 10}
	if !s.Open() {
		return res
	}
	for i := 0; i < sc.NOps && !s.Dead; i++ {
		op := g.Next()
		if op.Kind == "batch" || r.Chance(1, 10) {
			// pooled-record recycling pattern: repeated puts of one key (longer, shorter),
			// a get of the staged value, then commit followed by unrelated plain puts
			if op.Kind != "batch" {
				op = core.Op{Kind: "batch"}
			}
			k := g.Key()
			for j := r.Range(2, 5); j > 0; j-- {
				op.Sub = append(op.Sub, core.Op{Kind: "put", Key: k, VLen: r.Range(1, 600), VSeed: r.U64()})
				if r.Chance(1, 2) {
					op.Sub = append(op.Sub, core.Op{Kind: "get", Key: k})
				}
				if r.Chance(1, 4) {
					op.Sub = append(op.Sub, core.Op{Kind: "del", Key: k})
				}
			}
			res.Add("batch_reputs", 1)
		}
		if !s.Exec(op) {
			break
		}
		if op.Kind == "batch" {
			for j := r.Range(1, 3); j > 0 && !s.Dead; j-- {
				s.Exec(core.Op{Kind: "put", Key: g.Key(), VLen: r.Range(0, 900), VSeed: r.U64()})
			}
		}
		if i%8 == 7 && !s.Dead && !s.CheckDump("periodic") {
			break
		}
	}
	if !s.Dead {
		s.Exec(core.Op{Kind: "restart"})
	}
	if !s.Dead {
		s.CheckDump("final")
		s.CheckCanary("final")
	}
	if s.DB != nil {
		s.Close()
	}
	res.Nontrivial = res.Counters["batch_reputs"] > 0 && res.Counters["retained_slices"] >= 20 && res.Counters["restarts"] > 0
	res.Hash = core.HashBytes([]byte(sc.Cfg.String()), []byte(fmt.Sprint(s.Log)))
	if c.Index < 2 {
		res.Sample = map[string]any{"config": sc.Cfg, "ops": firstN(s.Log, 30), "total_ops": len(s.Log)}
	}
	return res
}
