package props

import (
	"bytes"
	"fmt"
	kv "github.com/XiXi-2024/xixi-kv"
	"os"
	"path/filepath"
	"sort"
	"strconv"
	"strings"
	"sync"
	"time"

	"verif/harness/core"
	"verif/harness/mon"
	"verif/harness/vfmt"
)

// C06 — merge preserves every key's value and reclaims the garbage.
type c06 struct{}

func init() { core.Register(c06{}) }

func (c06) ID() string    { return "C06" }
func (c06) Level() string { return "exploration" }
func (c06) Rule() string {
	return "cases = histories (plain and batch writes, deletes, oversized records, keys rewritten many times, all-deleted and empty databases; 1..3 merges with restarts in between; file-size limits such that the output needs fewer, equal or more files: reopen with a smaller limit) in three modes: seq (no writer during Merge), hooked (at the merge.record hook, i.e. between the liveness test of a record and its rewrite, the harness issues Put/Delete on keys of the merged set from the merging goroutine's position in the schedule), racing (1..4 writer goroutines owning disjoint keys run Put/Delete while Merge runs). Oracle: dump vs model before Merge, right after Merge, after the adopting restart, after a second restart and after a third restart with writes in between; if Merge returned an error nothing may have changed; if it returned nil then after the adopting restart the merge directory must be gone and the files below the boundary id, decoded with vfmt, must hold only plain (untagged, non-tombstone) records, each key at most once, each one a record that was live when the merge started, and (seq mode) exactly the live set. Non-trivial: >=1 successful merge over >=3 files with >=1 dead version reclaimed, audited after adoption; distinct = hash of (mode, config, op list) One extra case (thorough: four) holds ~270 MiB with 11 % dead data under DataFileMergeRatio 0.5 (the ratio precondition only exists above 256 MiB): Merge must report an error and change nothing, or - if it returns nil - the adopting restart must have removed the dead versions."
}
func (c06) Assumptions() []string {
	return []string{"vfmt decodes files independently", "racing writers own disjoint keys so that the final model state is determined"}
}
func (c06) Required() []string {
	return []string{"merges_ok", "adoptions_audited", "audited_records", "dead_versions_reclaimed", "writes_during_scan", "racing_merges", "merges_abandoned", "restarts"}
}

type c06Case struct {
	Cfg  core.Config
	Mode string
	NOps int
	Var  string
}

func (c06) Cases(tier string, seed uint64) []core.Case {
	n := 400
	if tier == "thorough" {
		n = 60000
	}
	r := core.NewRng(core.Mix(seed, 0xC06))
	modes := []string{"seq", "hooked", "racing", "seq", "hooked"}
	vars := []string{"plain", "mostly-dead", "all-deleted", "oversized", "smaller-limit", "batchy", "empty", "slightly-smaller", "slightly-smaller"}
	var out []core.Case
	for i := 0; i < n; i++ {
		cfg := core.Config{IndexType: core.IndexTypes[i%3], ShardNum: core.ShardNums[r.Intn(6)], FileIO: byte((i / 3) % 2),
			DataFileSize: []int64{4 << 10, 8 << 10, 40 << 10}[r.Intn(3)]}
		out = append(out, core.Case{Index: i, ID: fmt.Sprintf("c06-%05d", i), Seed: r.U64(),
			Data: c06Case{Cfg: cfg, Mode: modes[i%len(modes)], NOps: r.Range(30, 140), Var: vars[(i/5)%len(vars)]}})
	}
	// the garbage-ratio precondition only exists above 256 MiB of accounted data: one case
	// (thorough: four) with ~270 MiB, 11 % of it dead, DataFileMergeRatio 0.5
	nr := 1
	if tier == "thorough" {
		nr = 4
	}
	for j := 0; j < nr; j++ {
		cfg := core.Config{IndexType: core.IndexTypes[j%3], ShardNum: 4, FileIO: byte(j % 2), DataFileSize: 64 << 20, MergeRatio: 0.5}
		out = append(out, core.Case{Index: len(out), ID: fmt.Sprintf("c06-ratio-%d", j), Seed: r.U64(), Data: c06Case{Cfg: cfg, Mode: "ratio"}})
	}
	return out
}

// runRatio: Merge on a large database whose dead share is below DataFileMergeRatio. Either
// Merge reports an error (and nothing changes), or - if it claims success - the adopting
// restart must leave the directory without the dead versions.
func runRatio(c core.Case, cc c06Case, w *core.Worker) core.Result {
	res := core.Result{}
	dir := w.Dir("big")
	s := core.NewSession(dir, cc.Cfg, &res)
	s.NoStates = true
	if !s.Open() {
		return res
	}
	r := core.NewRng(c.Seed)
	for i := 0; i < 68 && !s.Dead; i++ {
		s.Exec(core.Op{Kind: "put", Key: []byte(fmt.Sprintf("big%02d", i)), VLen: 4<<20 - r.Range(0, 4000), VSeed: r.U64() | 1})
	}
	for i := 0; i < 8 && !s.Dead; i++ { // 8 of 68 overwritten: ~11 % garbage
		s.Exec(core.Op{Kind: "put", Key: []byte(fmt.Sprintf("big%02d", i*7)), VLen: 4<<20 - r.Range(0, 4000), VSeed: r.U64() | 1})
	}
	if s.Dead {
		return res
	}
	dirBytes := func() int64 {
		var n int64
		for _, f := range core.DataFiles(dir) {
			if b, err := mon.ReadLogical(dir+"/"+f, -1); err == nil {
				n += int64(len(b))
			}
		}
		return n
	}
	st := s.DB.Stat()
	before := st.DiskSize
	var merr error
	core.Safe(func() { merr = s.DB.Merge() })
	s.Log = append(s.Log, fmt.Sprintf("merge->%v", merr))
	res.Add("ratio_merges", 1)
	res.SetAdd("merge_error_kinds", fmt.Sprint(merr))
	s.CheckDump("after Merge on a database above the ratio threshold size")
	if !s.Dead {
		s.Exec(core.Op{Kind: "restart"})
	}
	if !s.Dead && merr == nil {
		// claimed success: the 8 dead 4 MiB versions must be gone after the adopting restart
		if after := dirBytes(); after > before-24<<20 {
			res.Violate(fmt.Sprintf("Merge returned nil on a %d MiB database with ~32 MiB of dead records (DataFileMergeRatio 0.5), but after the adopting restart the data files still hold %d MiB: nothing was reclaimed and no error was reported", before>>20, after>>20),
				map[string]string{"class": "merge", "kind": "not-reclaimed", "mode": "ratio", "variant": "ratio", "io": fmt.Sprint(cc.Cfg.FileIO)}, map[string]any{"config": cc.Cfg})
		}
	}
	if s.DB != nil {
		s.Close()
	}
	for _, k := range []string{"merges_ok", "adoptions_audited", "dead_versions_reclaimed", "writes_during_scan", "racing_merges"} {
		res.Add(k, 0)
	}
	res.Nontrivial = before > 256<<20
	res.Hash = core.HashBytes([]byte(fmt.Sprint("ratio", cc.Cfg)))
	res.Sample = map[string]any{"kind": "ratio", "disk_size_before": before, "merge_result": fmt.Sprint(merr)}
	return res
}

func maxDataID(dir string) int {
	m := -1
	for _, f := range core.DataFiles(dir) {
		if id, err := strconv.Atoi(strings.TrimSuffix(f, ".data")); err == nil && id > m {
			m = id
		}
	}
	return m
}

func (c06) Run(c core.Case, w *core.Worker) core.Result {
	cc := c.Data.(c06Case)
	if cc.Mode == "ratio" {
		return runRatio(c, cc, w)
	}
	res := core.Result{}
	root := w.Dir("root")
	dir := filepath.Join(root, "db")
	mergeDir := filepath.Join(root, "db-merge")
	io := mon.NewIOLog()
	io.Track = dir
	r := core.NewRng(c.Seed)
	s := core.NewSession(dir, cc.Cfg, &res)
	s.Spell = c.Index%2 == 1
	s.IO = io
	s.Extra = map[string]string{"mode": cc.Mode, "variant": cc.Var}
	keys := core.GenKeys(r, r.Range(4, 10))
	g := &core.Gen{R: r, Keys: keys, Cfg: cc.Cfg, EndOff: io.ActiveEnd, NoMerge: true, NoRestart: true, MaxVal: 3000, NoOversize: true}
	feat := func(kind string) map[string]string {
		return map[string]string{"class": "merge", "kind": kind, "mode": cc.Mode, "variant": cc.Var, "io": fmt.Sprint(cc.Cfg.FileIO)}
	}
	fail := func(kind, msg string) {
		res.Violate(fmt.Sprintf("step %d: %s", s.Step, msg), feat(kind), map[string]any{"config": s.Cfg, "ops_tail": lastN(s.Log, 30)})
		s.Dead = true
	}
	// hook: writes during the scan
	var hookWrites func()
	var hookAfterRotate func()
	io.OnEvent = func(ev mon.Event, buf []byte) {
		if ev.Kind == "point" && ev.Name == "merge.record" && hookWrites != nil {
			hookWrites()
		}
		if ev.Kind == "point" && (ev.Name == "merge.afterRotate" || ev.Name == "merge.beforeMarker") && hookAfterRotate != nil {
			hookAfterRotate()
		}
	}
	defer io.Install()()
	if !s.Open() {
		return res
	}
	history := func(n int) {
		for i := 0; i < n && !s.Dead; i++ {
			var op core.Op
			switch cc.Var {
			case "batchy":
				if i%2 == 0 {
					op = g.Batch()
				} else {
					op = g.Next()
				}
			case "oversized":
				if i%17 == 5 {
					op = core.Op{Kind: "put", Key: g.Key(), VLen: int(cc.Cfg.DataFileSize) + r.Range(10, 900), VSeed: r.U64()}
				} else {
					op = g.Next()
				}
			case "empty", "slightly-smaller", "smaller-limit":
				return
			default:
				op = g.Next()
			}
			s.Exec(op)
		}
	}
	history(cc.NOps)
	switch cc.Var {
	case "all-deleted":
		for _, k := range keys {
			s.Exec(core.Op{Kind: "del", Key: k})
		}
	case "mostly-dead":
		for rep := 0; rep < 3; rep++ {
			for _, k := range keys[:len(keys)/2+1] {
				s.Exec(core.Op{Kind: "put", Key: k, VLen: r.Range(200, 1500), VSeed: r.U64()})
			}
		}
	case "smaller-limit", "slightly-smaller":
		// (almost) only live data spread over several files, then a smaller limit: the
		// rewritten set needs more files than were merged (by many, or by about one)
		nk := r.Range(12, 40)
		for i := 0; i < nk && !s.Dead; i++ {
			k := []byte(fmt.Sprintf("u%03d", i))
			s.Exec(core.Op{Kind: "put", Key: k, VLen: r.Range(int(cc.Cfg.DataFileSize)/8, int(cc.Cfg.DataFileSize)/3), VSeed: r.U64()})
			if r.Chance(1, 8) {
				s.Exec(core.Op{Kind: "put", Key: k, VLen: r.Range(10, 200), VSeed: r.U64()})
			}
		}
		small := s.Cfg
		if cc.Var == "smaller-limit" {
			small.DataFileSize = s.Cfg.DataFileSize / int64(r.Range(2, 6))
		} else {
			small.DataFileSize = s.Cfg.DataFileSize * int64(r.Range(70, 99)) / 100
		}
		s.Exec(core.Op{Kind: "restart", Cfg: &small})
	}
	nMerges := r.Range(1, 3)
	for m := 0; m < nMerges && !s.Dead; m++ {
		if !s.CheckDump("before-merge") {
			break
		}
		// what is on disk and live before the merge
		liveBefore, perFileBefore, _, err := scanDir(dir, io.Files())
		if err != nil {
			fail("scan", "scan before merge: "+err.Error())
			break
		}
		nRecsBefore := 0
		for _, rs := range perFileBefore {
			nRecsBefore += len(rs)
		}
		liveVals := map[string][]byte{} // value of the live record per key at merge start
		for k := range liveBefore {
			v, _ := s.M.Get([]byte(k))
			liveVals[k] = append([]byte{}, v...)
		}
		boundary := maxDataID(dir) + 1
		touched := map[string]bool{} // keys written while the merge ran
		// racing mode: a writer's Put may reach the log before Merge rotates, which makes
		// that record part of the merged set and live during the merge
		racedVals := map[string]bool{}
		var merr error
		switch cc.Mode {
		case "hooked":
			cnt := 0
			hookWrites = func() {
				cnt++
				if !r.Chance(1, 3) {
					return
				}
				k := g.Key()
				if r.Chance(2, 3) {
					v := core.FillValue(r.U64(), r.Range(0, 500))
					if err := s.DB.Put(k, v); err == nil {
						s.M.Put(k, v)
					}
				} else {
					if err := s.DB.Delete(k); err == nil {
						s.M.Delete(k)
					}
				}
				touched[string(k)] = true
				res.Add("writes_during_scan", 1)
			}
			// writers that rotate the active file right after Merge released the lock,
			// and again just before the marker is written
			hookAfterRotate = func() {
				if !r.Chance(1, 2) {
					return
				}
				for j := 0; j < 3; j++ {
					k := g.Key()
					v := core.FillValue(r.U64(), int(s.Cfg.DataFileSize)/2+r.Range(0, 100))
					if err := s.DB.Put(k, v); err == nil {
						s.M.Put(k, v)
					}
					touched[string(k)] = true
					res.Add("writes_during_scan", 1)
				}
				res.Add("rotations_forced_during_merge", 1)
			}
			core.Safe(func() { merr = s.DB.Merge() })
			hookWrites, hookAfterRotate = nil, nil
		case "racing":
			if cc.Var == "empty" || cc.Var == "all-deleted" || r.Chance(1, 4) {
				// Merge is CALLED while this goroutine holds an open batch (which owns the
				// database lock until Commit): whatever Merge looked at before it got the lock
				// is stale by the time it runs. The batch's records reach the log before the
				// rotation, so they belong to the merged set.
				b := s.DB.NewBatch(kv.BatchOptions{})
				done := make(chan struct{})
				go func() {
					defer close(done)
					core.Safe(func() { merr = s.DB.Merge() })
				}()
				time.Sleep(time.Duration(r.Range(1, 4)) * time.Millisecond)
				type pend struct {
					k, v []byte
					del  bool
				}
				var pends []pend
				for j := r.Range(1, 8); j > 0; j-- {
					k := g.Key()
					if r.Chance(3, 4) {
						v := core.FillValue(r.U64(), r.Range(0, 400))
						if b.Put(k, v) == nil {
							pends = append(pends, pend{k: k, v: v})
							racedVals[string(k)+"\x00"+core.HashBytes(v)] = true
						}
					} else if b.Delete(k) == nil {
						pends = append(pends, pend{k: k, del: true})
					}
				}
				if err := b.Commit(); err == nil {
					for _, pd := range pends {
						if pd.del {
							s.M.Delete(pd.k)
						} else {
							s.M.Put(pd.k, pd.v)
						}
						touched[string(pd.k)] = true
					}
				} else {
					fail("batch", "Commit of the batch that was open while Merge was called failed: "+err.Error())
				}
				<-done
				res.Add("merges_called_behind_an_open_batch", 1)
				res.Add("writes_during_scan", int64(len(pends)))
				res.Add("racing_merges", 1)
				break
			}
			nw := r.Range(1, 4)
			var wg sync.WaitGroup
			stop := make(chan struct{})
			type wres struct {
				final map[string][]byte
				del   map[string]bool
				ever  map[string]bool // key + value hash of everything this writer wrote
				n     int
			}
			results := make([]wres, nw)
			for wi := 0; wi < nw; wi++ {
				wg.Add(1)
				wr := core.NewRng(r.U64())
				go func(wi int) {
					defer wg.Done()
					out := wres{final: map[string][]byte{}, del: map[string]bool{}, ever: map[string]bool{}}
					var mine [][]byte
					for ki, k := range keys {
						if ki%nw == wi {
							mine = append(mine, k)
						}
					}
					for len(mine) > 0 {
						select {
						case <-stop:
							results[wi] = out
							return
						default:
						}
						k := mine[wr.Intn(len(mine))]
						if wr.Chance(2, 3) {
							v := core.FillValue(wr.U64(), wr.Range(0, 400))
							out.ever[string(k)+"\x00"+core.HashBytes(v)] = true
							if s.DB.Put(k, v) == nil {
								out.final[string(k)] = v
								delete(out.del, string(k))
							}
						} else if s.DB.Delete(k) == nil {
							delete(out.final, string(k))
							out.del[string(k)] = true
						}
						out.n++
						if out.n > 400 {
							break
						}
					}
					results[wi] = out
				}(wi)
			}
			core.Safe(func() { merr = s.DB.Merge() })
			close(stop)
			wg.Wait()
			for _, wrs := range results {
				for k, v := range wrs.final {
					s.M.Put([]byte(k), v)
					touched[k] = true
				}
				for k := range wrs.del {
					s.M.Delete([]byte(k))
					touched[k] = true
				}
				for e := range wrs.ever {
					racedVals[e] = true
				}
				res.Add("writes_during_scan", int64(wrs.n))
			}
			res.Add("racing_merges", 1)
		default:
			core.Safe(func() { merr = s.DB.Merge() })
		}
		s.Step++
		s.Log = append(s.Log, fmt.Sprintf("merge(%s)->%v", cc.Mode, merr))
		if !s.CheckDump("after-merge") {
			break
		}
		if merr != nil {
			res.Add("merges_abandoned", 1)
			res.SetAdd("merge_error_kinds", merr.Error())
			// nothing may have changed: adopting restart must show the same mapping and no adoption
			s.Exec(core.Op{Kind: "restart"})
			continue
		}
		res.Add("merges_ok", 1)
		// the boundary recorded in the marker; without racing writers it must be the id
		// right after the newest file that existed when Merge was called; racing writers
		// may rotate before Merge takes the lock, so there the marker is authoritative
		if mb, err := os.ReadFile(filepath.Join(mergeDir, "000000000.merge-finished")); err == nil {
			if raws, _, e2 := vfmt.ScanRaw(mb, 0); e2 == nil && len(raws) == 1 && len(raws[0].Payload) == 4 {
				mk := int(raws[0].Payload[0]) | int(raws[0].Payload[1])<<8 | int(raws[0].Payload[2])<<16 | int(raws[0].Payload[3])<<24
				if cc.Mode == "racing" {
					if mk < boundary {
						fail("marker", fmt.Sprintf("marker records boundary id %d, but files up to id %d existed before Merge was called", mk, boundary-1))
						break
					}
					boundary = mk
				} else if mk != boundary {
					fail("marker", fmt.Sprintf("marker records boundary id %d, expected %d (first file id that did not take part)", mk, boundary))
					break
				}
			} else {
				fail("marker", "Merge returned nil but the finished marker does not decode")
				break
			}
		} else {
			fail("marker", "Merge returned nil but there is no finished marker: "+err.Error())
			break
		}
		// adopting restart
		if !s.Exec(core.Op{Kind: "restart"}) {
			break
		}
		if _, err := os.Stat(mergeDir); err == nil {
			fail("merge-dir", "merge directory still exists after the adopting restart")
			break
		}
		// audit of the adopted files
		_, perFile, _, err := scanDir(dir, io.Files())
		if err != nil {
			fail("scan", "scan after adoption: "+err.Error())
			break
		}
		seen := map[string]bool{}
		nAud := 0
		for name, recs := range perFile {
			id, _ := strconv.Atoi(strings.TrimSuffix(name, ".data"))
			if id >= boundary {
				continue
			}
			for _, rc := range recs {
				nAud++
				k := string(rc.Key)
				if rc.Type != vfmt.RecNormal || rc.BatchID != 0 {
					fail("audit", fmt.Sprintf("adopted file %s holds a record of type %d with batch id %d (key %q): merged files must hold plain live records only", name, rc.Type, rc.BatchID, rc.Key))
					break
				}
				if seen[k] {
					fail("audit", fmt.Sprintf("adopted files hold key %q twice", rc.Key))
					break
				}
				seen[k] = true
				lv, wasLive := liveVals[k]
				if (!wasLive || !bytes.Equal(lv, rc.Value)) && !racedVals[k+"\x00"+core.HashBytes(rc.Value)] {
					fail("audit", fmt.Sprintf("adopted file %s holds a record for key %q (len %d) that was not the live record when the merge started: garbage not reclaimed", name, rc.Key, len(rc.Value)))
					break
				}
			}
			if s.Dead {
				break
			}
		}
		if s.Dead {
			break
		}
		for k := range liveVals {
			if !seen[k] && !touched[k] {
				fail("audit", fmt.Sprintf("key %q was live and untouched during the merge but is missing from the adopted files", k))
				break
			}
		}
		if s.Dead {
			break
		}
		res.Add("adoptions_audited", 1)
		res.Add("audited_records", int64(nAud))
		if nRecsBefore > nAud {
			res.Add("dead_versions_reclaimed", int64(nRecsBefore-nAud))
		}
		if len(perFileBefore) >= 3 && nRecsBefore > nAud {
			res.Nontrivial = true
		}
		// second restart, then writes + third restart
		s.Exec(core.Op{Kind: "restart"})
		history(r.Range(5, 25))
		if !s.Dead {
			s.Exec(core.Op{Kind: "restart"})
		}
	}
	if s.DB != nil {
		s.Close()
	}
	var ks []string
	for k := range res.Counters {
		ks = append(ks, k)
	}
	sort.Strings(ks)
	res.Hash = core.HashBytes([]byte(cc.Mode+cc.Var), []byte(s.Cfg.String()), []byte(fmt.Sprint(s.Log)))
	res.SetAdd("mode_variant", cc.Mode+"/"+cc.Var)
	if c.Index < 3 {
		res.Sample = map[string]any{"mode": cc.Mode, "variant": cc.Var, "config": cc.Cfg, "ops_tail": lastN(s.Log, 20), "total_ops": len(s.Log)}
	}
	return res
}
