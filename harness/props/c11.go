package props

import (
	"bytes"
	"fmt"
	"io"
	"os"
	"path/filepath"

	"github.com/XiXi-2024/xixi-kv/datafile"
	"verif/harness/core"
	"verif/harness/vfmt"
)

// C11 — block/chunk framing round-trips every record at every offset.
type c11 struct{}

func init() { core.Register(c11{}) }

func (c11) ID() string    { return "C11" }
func (c11) Level() string { return "exploration" }
func (c11) Rule() string {
	return "grid cases: for a start offset o (a filler record brings the file to in-block offset o of block 0, or of block 1 for a sample) and each of 60 length classes (record end at boundary+d, d in -9..+9, spanning 1, 2 and 3 blocks; minimal record, empty value, 1-byte value) the test record and a small trailer are appended (single writes; every 3rd combination as one multi-record staged flush), then checked four ways: writer positions and sizes vs the layout computed from the format, sequential reader (records, positions, sizes, EOF exactly after the last record), positional reads, the independent decoder vfmt over the raw file, DataFile.Size vs os.Stat; then closed, reopened and read again. quick = offsets within 64 bytes of a block boundary + every 37th other; thorough = every reachable offset 0..32767 (exhaustive over the grid). sequence cases: random sequences of 2..200 records (single and staged writes mixed, lengths from all classes) written through FileIO and MMap, both read back and the two files compared byte for byte. Non-trivial: combination in which the test record or the trailer touches a block boundary (padding, split or exact fit); distinct = (o, class, io) resp. hash of the sequence"
}
func (c11) Assumptions() []string {
	return []string{"vfmt is an independent implementation of the documented format", "unreachable start offsets (block 0: 1..11; later blocks: 1..7) cannot be produced by the writer and are reported"}
}
func (c11) Required() []string {
	return []string{"grid_combinations", "records_roundtripped", "records_with_padding_before", "records_split", "seq_cases", "io_pairs_compared", "staged_flushes"}
}
func (c11) Exhaustive(tier string) bool { return tier == "thorough" }

type c11Case struct {
	Kind    string
	Offsets []int
	IO      byte
	NRecs   int
}

func (c11) Cases(tier string, seed uint64) []core.Case {
	r := core.NewRng(core.Mix(seed, 0xC11))
	var offs []int
	if tier == "thorough" {
		for o := 0; o < vfmt.Block; o++ {
			offs = append(offs, o)
		}
		// a 1/16 sample with the start in a later block
		for o := 0; o < vfmt.Block; o += 16 {
			offs = append(offs, vfmt.Block+o+r.Intn(16))
		}
	} else {
		for o := 0; o < vfmt.Block; o++ {
			if o <= 64 || o >= vfmt.Block-64 || o%37 == int(seed%37) {
				offs = append(offs, o)
			}
		}
		for o := 0; o < vfmt.Block; o += 613 {
			offs = append(offs, vfmt.Block+o+r.Intn(64))
		}
		for d := -9; d <= 9; d++ {
			offs = append(offs, 2*vfmt.Block+d)
		}
	}
	var out []core.Case
	per := 24
	if tier == "thorough" {
		per = 64
	}
	for i := 0; i < len(offs); i += per {
		j := i + per
		if j > len(offs) {
			j = len(offs)
		}
		io := byte(0)
		if (i/per)%8 == 7 {
			io = 1
		}
		out = append(out, core.Case{Index: len(out), ID: fmt.Sprintf("c11-grid-%05d", offs[i]), Seed: r.U64(), Data: c11Case{Kind: "grid", Offsets: offs[i:j], IO: io}})
	}
	ns := 300
	if tier == "thorough" {
		ns = 20000
	}
	for i := 0; i < ns; i++ {
		out = append(out, core.Case{Index: len(out), ID: fmt.Sprintf("c11-seq-%05d", i), Seed: r.U64(), Data: c11Case{Kind: "seq", NRecs: r.Range(2, 200)}})
	}
	return out
}

type c11Rec struct {
	rec    datafile.LogRecord
	pos    *datafile.DataPos
	staged bool
}

func mkRec(r *core.Rng, klen, vlen int, typ byte, batch uint64) datafile.LogRecord {
	return datafile.LogRecord{Type: typ, Key: core.FillValue(r.U64(), klen), Value: core.FillValue(r.U64(), vlen), BatchID: batch}
}

// lengthClasses returns value lengths for a record with key length klen that
// starts at file offset start, one per class.
func lengthClasses(start int64, klen int) []int {
	var out []int
	inb := start % vfmt.Block
	if inb+vfmt.Header >= vfmt.Block && inb != 0 {
		start += vfmt.Block - inb
		inb = 0
	}
	for spans := int64(1); spans <= 3; spans++ {
		boundary := (start/vfmt.Block + spans) * vfmt.Block
		for d := int64(-9); d <= 9; d++ {
			if v, ok := fitVLen(start, klen, boundary+d); ok {
				out = append(out, v)
			}
		}
	}
	out = append(out, 0, 1)
	return out
}

func (c11) Run(c core.Case, w *core.Worker) core.Result {
	cc := c.Data.(c11Case)
	res := core.Result{}
	r := core.NewRng(c.Seed)
	header := make([]byte, datafile.MaxLogRecordHeaderSize)
	dir := w.Dir("df")
	os.MkdirAll(dir, 0755)
	feat := func(kind string) map[string]string {
		return map[string]string{"class": "framing", "kind": kind, "io": fmt.Sprint(cc.IO)}
	}
	if cc.Kind == "seq" {
		return c11Seq(cc, r, dir, header, &res)
	}
	fid := uint32(0)
	nontrivial := 0
	for _, o := range cc.Offsets {
		target := int64(o)
		// filler
		var filler *datafile.LogRecord
		if target > 0 {
			ok := false
			for _, klen := range []int{1, 2, 3, 4} {
				if v, fit := fitVLen(0, klen, target); fit {
					rec := mkRec(r, klen, v, 0, 0)
					filler = &rec
					ok = true
					break
				}
			}
			if !ok {
				res.Add("grid_offsets_unreachable", 1)
				res.SetAdd("unreachable_offsets", fmt.Sprintf("b%d+%d", target/vfmt.Block, target%vfmt.Block))
				continue
			}
		}
		classes := lengthClasses(target, 2)
		// minimal record: 1-byte key, empty value
		for ci, vlen := range classes {
			fid++
			klen := 2
			if ci == len(classes)-2 {
				klen = 1
			}
			var recs []c11Rec
			if filler != nil {
				recs = append(recs, c11Rec{rec: *filler})
			}
			typ := byte(ci % 3)
			batch := uint64(0)
			if ci%4 == 1 {
				batch = 1<<62 + uint64(ci)
			}
			stagedPair := (ci+o)%3 == 0
			recs = append(recs, c11Rec{rec: mkRec(r, klen, vlen, typ, batch), staged: stagedPair})
			recs = append(recs, c11Rec{rec: mkRec(r, r.Range(1, 9), r.Range(0, 40), 0, 0), staged: stagedPair})
			msg, touched := c11RoundTrip(dir, fid, cc.IO, recs, header, &res)
			res.Add("grid_combinations", 1)
			if touched {
				nontrivial++
			}
			if msg != "" {
				res.Violate(fmt.Sprintf("start offset %d, value length %d (class %d): %s", o, vlen, ci, msg), feat("grid"),
					map[string]any{"start_offset": o, "vlen": vlen, "klen": klen, "io": cc.IO, "staged": stagedPair})
				if len(res.Violations) >= 6 {
					return res
				}
			}
			os.Remove(datafile.GetFileName(dir, fid, datafile.DataFileSuffix))
		}
	}
	res.Nontrivial = nontrivial > 0
	res.Hash = core.HashBytes([]byte(fmt.Sprint("grid", cc.Offsets, cc.IO)))
	if c.Index%97 == 0 {
		res.Sample = map[string]any{"kind": "grid", "io": cc.IO, "offsets": cc.Offsets[:min(6, len(cc.Offsets))], "classes_per_offset": len(lengthClasses(int64(cc.Offsets[0]), 2))}
	}
	return res
}

// c11RoundTrip writes recs into a fresh file and checks everything the
// property states. It returns "" or a description of the first discrepancy.
func c11RoundTrip(dir string, fid uint32, ioType byte, recs []c11Rec, header []byte, res *core.Result) (msg string, touched bool) {
	pv, st := core.Safe(func() { msg, touched = c11RoundTripInner(dir, fid, ioType, recs, header, res) })
	if pv != nil {
		return fmt.Sprintf("panic: %v\n%s", pv, st), touched
	}
	return
}

func c11RoundTripInner(dir string, fid uint32, ioType byte, recs []c11Rec, header []byte, res *core.Result) (string, bool) {
	df, err := datafile.OpenFile(dir, fid, datafile.DataFileSuffix, ioType)
	if err != nil {
		return "OpenFile: " + err.Error(), false
	}
	closed := false
	defer func() {
		if !closed {
			df.Close()
		}
	}()
	touched := false
	off := int64(0)
	// write
	for i := 0; i < len(recs); {
		if recs[i].staged {
			j := i
			for j < len(recs) && recs[j].staged {
				rc := recs[j].rec
				df.WriteStagedLogRecord(&rc, header)
				j++
			}
			poss, err := df.FlushStaged()
			if err != nil {
				return "FlushStaged: " + err.Error(), touched
			}
			if len(poss) != j-i {
				return fmt.Sprintf("FlushStaged returned %d positions for %d records", len(poss), j-i), touched
			}
			for k := i; k < j; k++ {
				recs[k].pos = poss[k-i]
			}
			res.Add("staged_flushes", 1)
			i = j
		} else {
			rc := recs[i].rec
			p, err := df.WriteLogRecord(&rc, header)
			if err != nil {
				return "WriteLogRecord: " + err.Error(), touched
			}
			recs[i].pos = p
			i++
		}
	}
	// expected layout from the format
	for i := range recs {
		plen := vfmt.EncodedLen(len(recs[i].rec.Key), len(recs[i].rec.Value), recs[i].rec.BatchID)
		start, end, size := vfmt.Layout(off, plen)
		if start != off {
			res.Add("records_with_padding_before", 1)
			touched = true
		}
		if start/vfmt.Block != (end-1)/vfmt.Block {
			res.Add("records_split", 1)
			touched = true
		}
		if end%vfmt.Block == 0 || end%vfmt.Block >= vfmt.Block-vfmt.Header {
			touched = true
		}
		p := recs[i].pos
		if p == nil {
			return fmt.Sprintf("record %d: writer returned no position", i), touched
		}
		if p.Fid != fid || int64(p.BlockID)*vfmt.Block+int64(p.Offset) != start || int64(p.Offset) >= vfmt.Block {
			return fmt.Sprintf("record %d: writer position (fid %d, block %d, offset %d) but the record starts at file offset %d", i, p.Fid, p.BlockID, p.Offset, start), touched
		}
		if int64(p.Size) != size {
			return fmt.Sprintf("record %d: reported Size %d, occupies %d bytes (headers+payload)", i, p.Size, size), touched
		}
		off = end
	}
	if df.Size() != off {
		return fmt.Sprintf("DataFile.Size()=%d after writing, format says the file ends at %d", df.Size(), off), touched
	}
	check := func(df *datafile.DataFile, phase string) string {
		rd := df.NewReader()
		for i := range recs {
			lr, p, err := rd.NextLogRecord()
			if err != nil {
				return fmt.Sprintf("%s: sequential read of record %d: %v", phase, i, err)
			}
			w := recs[i].rec
			if lr.Type != w.Type || lr.BatchID != w.BatchID || !bytes.Equal(lr.Key, w.Key) || !bytes.Equal(lr.Value, w.Value) {
				return fmt.Sprintf("%s: sequential record %d differs from what was appended (type %d/%d batch %d/%d klen %d/%d vlen %d/%d)", phase, i, lr.Type, w.Type, lr.BatchID, w.BatchID, len(lr.Key), len(w.Key), len(lr.Value), len(w.Value))
			}
			if *p != *recs[i].pos {
				return fmt.Sprintf("%s: sequential reader position %+v != writer position %+v for record %d", phase, *p, *recs[i].pos, i)
			}
			res.Add("records_roundtripped", 1)
		}
		if _, _, err := rd.NextLogRecord(); err != io.EOF {
			return fmt.Sprintf("%s: reader after the last record returned %v, want io.EOF", phase, err)
		}
		if _, _, err := rd.NextLogRecord(); err != io.EOF {
			return fmt.Sprintf("%s: second read after the end returned %v, want io.EOF", phase, err)
		}
		for i := len(recs) - 1; i >= 0; i-- {
			v, err := df.ReadRecordValue(recs[i].pos)
			if err != nil || !bytes.Equal(v, recs[i].rec.Value) {
				return fmt.Sprintf("%s: positional read of record %d: len %d err=%v, want len %d", phase, i, len(v), err, len(recs[i].rec.Value))
			}
		}
		return ""
	}
	if m := check(df, "live"); m != "" {
		return m, touched
	}
	path := datafile.GetFileName(dir, fid, datafile.DataFileSuffix)
	if ioType == 0 {
		if st, err := os.Stat(path); err != nil || st.Size() != df.Size() {
			return fmt.Sprintf("DataFile.Size()=%d but physical size is %d", df.Size(), st.Size()), touched
		}
	}
	if err := df.Close(); err != nil {
		return "Close: " + err.Error(), touched
	}
	closed = true
	st, err := os.Stat(path)
	if err != nil || st.Size() != off {
		return fmt.Sprintf("physical size after Close is %d, logical size was %d", st.Size(), off), touched
	}
	// independent decoder over the raw bytes
	raw, err := os.ReadFile(path)
	if err != nil {
		return err.Error(), touched
	}
	vrecs, _, verr := vfmt.Scan(raw)
	if verr != nil || len(vrecs) != len(recs) {
		return fmt.Sprintf("independent decoder: %d records, err=%v; %d were appended", len(vrecs), verr, len(recs)), touched
	}
	for i, vr := range vrecs {
		w := recs[i].rec
		if vr.Type != w.Type || vr.BatchID != w.BatchID || !bytes.Equal(vr.Key, w.Key) || !bytes.Equal(vr.Value, w.Value) ||
			vr.BlockID != recs[i].pos.BlockID || vr.Off != recs[i].pos.Offset || vr.Size != recs[i].pos.Size {
			return fmt.Sprintf("independent decoder disagrees on record %d (at block %d off %d size %d; writer said %+v)", i, vr.BlockID, vr.Off, vr.Size, *recs[i].pos), touched
		}
	}
	// reopen: size arithmetic from the physical size
	df2, err := datafile.OpenFile(dir, fid, datafile.DataFileSuffix, 1-ioType)
	if err != nil {
		return "reopen: " + err.Error(), touched
	}
	defer df2.Close()
	if df2.Size() != off {
		return fmt.Sprintf("reopened DataFile.Size()=%d, physical size %d", df2.Size(), off), touched
	}
	if m := check(df2, "reopened"); m != "" {
		return m, touched
	}
	return "", touched
}

func c11Seq(cc c11Case, r *core.Rng, dir string, header []byte, res *core.Result) core.Result {
	var recs []c11Rec
	off := int64(0)
	staged := false
	for i := 0; i < cc.NRecs; i++ {
		klen := r.Range(1, 20)
		if r.Chance(1, 30) {
			klen = r.Range(100, 40000)
		}
		var vlen int
		switch r.Intn(6) {
		case 0:
			vlen = 0
		case 1:
			vlen = r.Range(1, 100)
		case 2:
			vlen = r.Range(100, 5000)
		case 3:
			cl := lengthClasses(off, klen)
			vlen = cl[r.Intn(len(cl))]
		case 4:
			vlen = r.Range(1, 3)*vfmt.Block + r.Range(-20, 20)
		default:
			vlen = r.Range(1, 2000)
		}
		if r.Chance(1, 5) {
			staged = !staged
		}
		batch := uint64(0)
		if staged {
			batch = r.U64() | 1
		}
		rec := mkRec(r, klen, vlen, byte(r.Intn(3)), batch)
		recs = append(recs, c11Rec{rec: rec, staged: staged})
		_, end, _ := vfmt.Layout(off, vfmt.EncodedLen(klen, vlen, batch))
		off = end
	}
	feat := map[string]string{"class": "framing", "kind": "seq"}
	a := append([]c11Rec{}, recs...)
	b := append([]c11Rec{}, recs...)
	m1, _ := c11RoundTrip(dir, 1, 0, a, header, res)
	m2, _ := c11RoundTrip(dir, 2, 1, b, header, res)
	res.Add("seq_cases", 1)
	if m1 != "" {
		res.Violate("FileIO sequence: "+m1, feat, map[string]any{"nrecs": len(recs)})
	}
	if m2 != "" {
		res.Violate("MMap sequence: "+m2, feat, map[string]any{"nrecs": len(recs)})
	}
	if m1 == "" && m2 == "" {
		f1, _ := os.ReadFile(filepath.Join(dir, "000000001.data"))
		f2, _ := os.ReadFile(filepath.Join(dir, "000000002.data"))
		res.Add("io_pairs_compared", 1)
		if !bytes.Equal(f1, f2) {
			res.Violate(fmt.Sprintf("FileIO and MMap files differ (%d vs %d bytes)", len(f1), len(f2)), feat, nil)
		}
	}
	res.Nontrivial = off > vfmt.Block
	var lens []int
	for _, rc := range recs {
		lens = append(lens, len(rc.rec.Value))
	}
	res.Hash = core.HashBytes([]byte(fmt.Sprint("seq", lens)))
	if cc.NRecs < 8 {
		res.Sample = map[string]any{"kind": "seq", "value_lengths": lens}
	}
	return *res
}
