package props

import (
	"fmt"
	"os"
	"path/filepath"
	"sort"
	"strings"
	"time"

	kv "github.com/XiXi-2024/xixi-kv"
	"github.com/XiXi-2024/xixi-kv/vhook"
	"verif/harness/core"
	"verif/harness/mon"
	"verif/harness/vfmt"
)

// C07 — a crash during merge or adoption never loses or resurrects data.
type c07 struct{}

func init() { core.Register(c07{}) }

func (c07) ID() string    { return "C07" }
func (c07) Level() string { return "fault_enumeration" }
func (c07) Rule() string {
	return "cases = merge scenarios (history of puts/deletes/batches over small files; variants: plain, all keys deleted (empty output), mostly dead (fewer output files), oversized record, reopened with smaller limit (merge abandoned), second merge over an already adopted one); at EVERY hooked event (fs.mkdir/removeall/rename, io.open/write/sync/close/truncate/map, named points) inside Merge and inside the adopting Open a byte-exact image of data dir + merge dir is taken and reopened twice; every image must recover exactly the acknowledged mapping S_a; every 6th image taken inside Merge is then used further (half of the keys deleted, a new Merge run to completion, adopted, restarted twice: what an interrupted merge left behind must not leak into a later one); if the image held a finished (decodable) marker, the merge directory must be gone after the first reopen and the second reopen must not change the set of files; for events during adoption the retry Open of the image is itself imaged at each of its events (second crash during the retry; beyond 6000 nested images in one case only every fifth further event is imaged). Non-trivial: >=1 image taken inside adoption with >=2 data files renamed and >=1 nested image; distinct = hash of (scenario, config, op list)"
}
func (c07) Assumptions() []string {
	return []string{"process-death images only (power loss is outside this property's quantifier)", "sequential: no writer in flight during the imaged Merge"}
}
func (c07) Required() []string {
	return []string{"images_process_death", "images_in_merge", "images_in_adoption", "images_nested", "fs.rename", "adoptions_checked"}
}

type c07Case struct {
	Cfg      core.Config
	Scenario string
	NOps     int
}

var c07Scenarios = []string{"plain", "all-deleted", "mostly-dead", "oversized", "smaller-limit", "batchy", "plain", "mostly-dead"}

func (c07) CaseBudget(tier string) time.Duration {
	// measured: the heaviest thorough case needs ~12 min of one worker on an idle machine and
	// more than 15 under load; a watchdog firing is only ever inconclusive or a reproduced hang
	if tier == "thorough" {
		return 3600 * time.Second
	}
	return 900 * time.Second
}

func (c07) Cases(tier string, seed uint64) []core.Case {
	n := 16
	if tier == "thorough" {
		n = 160
	}
	r := core.NewRng(core.Mix(seed, 0xC07))
	var out []core.Case
	for i := 0; i < n; i++ {
		cfg := core.Config{IndexType: core.IndexTypes[i%3], ShardNum: core.ShardNums[r.Intn(5)], FileIO: byte((i / 2) % 2),
			DataFileSize: []int64{4 << 10, 8 << 10, 40 << 10}[r.Intn(3)]}
		out = append(out, core.Case{Index: i, ID: fmt.Sprintf("c07-%04d", i), Seed: r.U64(),
			Data: c07Case{Cfg: cfg, Scenario: c07Scenarios[i%len(c07Scenarios)], NOps: r.Range(30, 80)}})
	}
	return out
}

func markerFinished(img string) bool {
	b, err := os.ReadFile(filepath.Join(img, "db-merge", "000000000.merge-finished"))
	if err != nil {
		return false
	}
	raws, _, err := vfmt.ScanRaw(b, 0)
	return err == nil && len(raws) == 1 && len(raws[0].Payload) == 4
}

func listFiles(dir string) string {
	ents, _ := os.ReadDir(dir)
	var l []string
	for _, e := range ents {
		if e.Name() == ".lock" {
			continue
		}
		// names only: sizes legitimately change when recovery resets the logical
		// size of a pre-extended mmap file and Close shrinks it
		l = append(l, e.Name())
	}
	sort.Strings(l)
	return strings.Join(l, ",")
}

func (c07) Run(c core.Case, w *core.Worker) core.Result {
	cc := c.Data.(c07Case)
	res := core.Result{}
	r := core.NewRng(c.Seed)
	cr, io := newCrashRun(w, &res, cc.Cfg, r, "C07")
	cr.powerLoss, cr.partial = false, false
	defer io.Install()()
	s := core.NewSession(cr.dbDir(), cc.Cfg, &res)
	s.IO = io
	s.Extra = map[string]string{"scenario": cc.Scenario}
	cr.log = func() []string { return s.Log }
	keys := core.GenKeys(r, r.Range(5, 12))
	for _, k := range keys {
		cr.ever[string(k)] = true
	}
	cr.ever["~after-crash"] = true
	g := &core.Gen{R: r, Keys: keys, Cfg: cc.Cfg, NoMerge: true, NoRestart: true, MaxVal: 3000, NoOversize: true}
	phase := ""
	cr.filter = func(ev mon.Event) bool { return phase != "" }
	// adoption-state oracle
	finished := false
	filesAfter0 := ""
	cr.preOpen = func(img string) { finished = markerFinished(img) }
	cr.postOpen = func(img string, round int, wrote bool) string {
		if round == 0 {
			if finished {
				res.Add("adoptions_checked", 1)
				if _, err := os.Stat(filepath.Join(img, "db-merge")); err == nil {
					return "image held a finished merge but the merge directory still exists after Open"
				}
			}
			filesAfter0 = listFiles(filepath.Join(img, "db"))
			return ""
		}
		if now := listFiles(filepath.Join(img, "db")); now != filesAfter0 {
			return fmt.Sprintf("file set changed at the second reopen: %s -> %s", filesAfter0, now)
		}
		return ""
	}
	// nested crash during the retry
	nestedSeen := 0
	cr.nested = func(img2 string, ev mon.Event) {
		if phase != "adoption" {
			return
		}
		sub := &crashRun{w: w, res: &res, root: img2, cfg: cc.Cfg, r: cr.r, ever: cr.ever, states: cr.states, mutBytes: cr.mutBytes,
			enabled: true, preOpen: cr.preOpen, postOpen: cr.postOpen, log: cr.log}
		sio := mon.NewIOLog()
		sub.io = sio
		outer := cr.evLabel
		sio.OnEvent = func(e2 mon.Event, buf []byte) {
			// the retry is imaged at its directory-level steps and named points
			// (the adoption sequence); plain file loading is covered by the outer level
			if sub.busy || !(strings.HasPrefix(e2.Kind, "fs.") || e2.Kind == "point") {
				return
			}
			// cost bound (count-based, so the verdict does not depend on time): beyond 6000
			// nested images in one case only every fifth further event is imaged
			nestedSeen++
			if res.Counters["images_nested"] >= 6000 && nestedSeen%5 != 0 {
				res.Add("nested_events_thinned_out", 1)
				return
			}
			sub.busy = true
			old := vhook.Set(nil)
			if img3, ok := sub.snapshot(); ok {
				sub.evLabel = outer + " then " + e2.Kind
				if e2.Name != "" {
					sub.evLabel += ":" + e2.Name
				}
				res.Add("images_nested", 1)
				sub.nImages++
				sub.checkImage(img3, "process-death-nested", e2, len(cr.states)-1, len(cr.states)-1, "")
				os.RemoveAll(img3)
			}
			vhook.Set(old)
			sub.busy = false
		}
		old := vhook.Set(sio)
		var db *kv.DB
		var err error
		pv, _ := core.Safe(func() { db, err = kv.Open(cc.Cfg.Options(filepath.Join(img2, "db"))) })
		vhook.Set(old)
		if pv == nil && err == nil && db != nil {
			db.Close()
		}
	}
	cr.enabled = true
	if !s.Open() {
		return res
	}
	// history
	for i := 0; i < cc.NOps && !s.Dead; i++ {
		var op core.Op
		switch cc.Scenario {
		case "batchy":
			if i%2 == 0 {
				op = g.Batch()
			} else {
				op = g.Put()
			}
		case "oversized":
			if i%15 == 7 {
				k := g.Key()
				op = core.Op{Kind: "put", Key: k, VLen: int(cc.Cfg.DataFileSize) + r.Range(10, 2000), VSeed: r.U64()}
			} else {
				op = g.Next()
			}
		default:
			op = g.Next()
		}
		if !cr.runMut(s, op) {
			break
		}
	}
	switch cc.Scenario {
	case "all-deleted":
		for _, k := range keys {
			cr.runMut(s, core.Op{Kind: "del", Key: k})
		}
	case "mostly-dead":
		for rep := 0; rep < 3; rep++ {
			for _, k := range keys[:len(keys)/2+1] {
				cr.runMut(s, core.Op{Kind: "put", Key: k, VLen: r.Range(300, 1500), VSeed: r.U64()})
			}
		}
		for _, k := range keys[len(keys)/2+1:] {
			cr.runMut(s, core.Op{Kind: "del", Key: k})
		}
	case "smaller-limit":
		small := cc.Cfg
		small.DataFileSize = cc.Cfg.DataFileSize / 4
		s.Exec(core.Op{Kind: "restart", Cfg: &small})
		cr.cfg = small
	}
	for round := 0; round < 2 && !s.Dead && res.Verdict != "violated"; round++ {
		// Merge, imaged
		phase = "merge"
		cr.contMerge = true
		n0 := res.Counters["images_process_death"]
		s.Exec(core.Op{Kind: "merge"})
		cr.contMerge = false
		res.Add("images_in_merge", res.Counters["images_process_death"]-n0)
		phase = ""
		if s.Dead {
			break
		}
		// adopting restart, imaged
		if !s.Close() {
			break
		}
		phase = "adoption"
		n0 = res.Counters["images_process_death"]
		ren0 := res.Counters["fs.rename"]
		okOpen := s.Open()
		res.Add("images_in_adoption", res.Counters["images_process_death"]-n0)
		if res.Counters["fs.rename"]-ren0 >= 3 {
			res.Add("adoptions_multi_file", 1)
		}
		phase = ""
		if !okOpen {
			break
		}
		s.CheckDump("after-adoption")
		if _, err := os.Stat(filepath.Join(cr.root, "db-merge")); err == nil && markerFinished(cr.root) {
			res.Violate("merge directory with finished marker still present after the adopting Open", map[string]string{"class": "adoption-state"}, nil)
		}
		// more history, then a second merge over the adopted files (stale hint present)
		for i := 0; i < 15 && !s.Dead; i++ {
			cr.runMut(s, g.Next())
		}
	}
	if s.DB != nil && !s.Dead {
		s.Exec(core.Op{Kind: "restart"})
		s.Close()
	}
	cr.enabled = false
	res.Nontrivial = res.Counters["adoptions_multi_file"] > 0 && res.Counters["images_nested"] > 0
	res.Hash = core.HashBytes([]byte(cc.Scenario), []byte(cc.Cfg.String()), []byte(fmt.Sprint(s.Log)))
	res.SetAdd("scenario", cc.Scenario)
	if c.Index < 2 {
		res.Sample = map[string]any{"scenario": cc.Scenario, "config": cc.Cfg, "ops_tail": lastN(s.Log, 12), "total_ops": len(s.Log),
			"images_in_merge": res.Counters["images_in_merge"], "images_in_adoption": res.Counters["images_in_adoption"], "images_nested": res.Counters["images_nested"]}
	}
	return res
}

func lastN(l []string, n int) []string {
	if len(l) > n {
		return l[len(l)-n:]
	}
	return l
}
