package props

import (
	"fmt"
	"os"
	"path/filepath"
	"runtime"
	"strings"
	"sync"
	"time"

	kv "github.com/XiXi-2024/xixi-kv"

	"github.com/XiXi-2024/xixi-kv/vhook"

	"verif/harness/core"
	"verif/harness/mon"
	"verif/harness/vfmt"
)

// C13 — sync policy is honoured.
type c13 struct{}

func init() { core.Register(c13{}) }

func (c13) ID() string    { return "C13" }
func (c13) Level() string { return "exploration" }
func (c13) Rule() string {
	return "cases = generated op sequences (puts, deletes, batches with and without Sync, rotations, oversized values, explicit Sync, merges, Close/reopen; every fourth case starts on a directory left by an unclean shutdown - torn last record under standard I/O, pre-extended files under mmap - so that the policy is also checked on files whose size was reset by recovery) under each SyncStrategy x BytesPerSync {1,300,4096,1 MiB} x FileIOType; an online checker over the hooked write/sync event stream keeps, per data-directory file, written and durable offsets (durable advances only at a COMPLETED sync event) and attributes every write (with its padding bytes computed by the independent decoder) to the API call in flight; rules evaluated at every API return: Always -> every byte written by Put/Delete calls is durable; Threshold(B) -> non-padding bytes written by Put/Delete calls and not yet durable < B; Sync batch -> everything written during the call incl. the sealing record is durable; Sync() and Close() -> every data-directory file has written == durable; at the creation of data file n+1 every other data file is fully durable. conc cases: ONE writer goroutine (Put, every few calls Sync) runs while a second goroutine calls Merge repeatedly (Merge rotates the active file and writes only outside the data directory); the event handler sleeps at the sync hooks to widen windows; at the return of each Sync() every byte that had been written to a data-directory file when that Sync was CALLED must be durable, and at each Put return the Threshold bound must hold - exact, because only the writer appends to data-directory files. strace cases: the same kind of workload runs in a child under `strace -f -y -e trace=write,fsync,fdatasync`; per data file the bytes written and the number of successful fsync calls seen by the kernel must equal the hook log (so the checker does not merely check its own hooks). Non-trivial: case with >=1 rotation, >=1 Sync batch or explicit Sync, and >=40 rule evaluations; distinct = hash of (config, op list) A few Threshold cases run with EnableBackgroundMerge: twice per case a trickle of small puts spans a tick of the merge timer, the timer-driven Merge is stretched at its first hook point, and the Threshold rule is evaluated at the return of every put as always (those cases never close, back up or merge on their own; their final Close is placed between two ticks)."
}
func (c13) Assumptions() []string {
	return []string{"a completed fsync (FileIO) or msync/Flush (MMap) event makes all bytes written to that file before the event durable",
		"hook events correspond to real syscalls (cross-checked against strace in the thorough tier)", "only files of the database directory are subject to the rules (merge output is a rewritten copy)"}
}
func (c13) Required() []string {
	return []string{"rule_always", "rule_threshold", "rule_batch_sync", "rule_sync", "rule_close", "rule_rotation", "io.syncDone"}
}

func (c13) Cases(tier string, seed uint64) []core.Case {
	n := 240
	if tier == "thorough" {
		n = 60000
	}
	r := core.NewRng(core.Mix(seed, 0xC13))
	modes := []struct {
		S byte
		B uint
	}{{0, 0}, {1, 0}, {2, 1}, {2, 300}, {2, 4096}, {2, 1 << 20}}
	var out []core.Case
	for i := 0; i < n; i++ {
		m := modes[i%len(modes)]
		cfg := core.Config{IndexType: core.IndexTypes[r.Intn(3)], ShardNum: core.ShardNums[r.Intn(5)], FileIO: byte((i / len(modes)) % 2),
			DataFileSize: []int64{4 << 10, 40 << 10, 64 << 10, 100000}[r.Intn(4)], Sync: m.S, BytesPerSync: m.B}
		flag := 0
		if m.S == 2 && m.B >= 300 && ((tier != "thorough" && i%24 < 6) || i%600 < 6) {
			// the timer-driven background merge is on and the workload pauses twice for more
			// than one tick: whatever the background goroutine does, the Threshold rule holds
			// at every return of the foreground calls
			cfg.BgMerge, flag = true, 1
			if i%2 == 0 {
				cfg.MergeRatio = 0.95
			}
		}
		out = append(out, core.Case{Index: i, ID: fmt.Sprintf("c13-%05d", i), Seed: r.U64(), Data: seqCase{Cfg: cfg, NOps: r.Range(40, 200), NKeys: r.Range(3, 9), Flag: flag}})
	}
	// one writer + a concurrent Merge client (policy at the writer's returns)
	nc := 12
	if tier == "thorough" {
		nc = 400
	}
	for i := 0; i < nc; i++ {
		m := modes[[]int{0, 3, 4}[i%3]]
		out = append(out, core.Case{Index: len(out), ID: fmt.Sprintf("c13-conc-%03d", i), Seed: r.U64(),
			Data: seqCase{Cfg: core.Config{IndexType: core.IndexTypes[i%3], ShardNum: 4, FileIO: byte((i / 3) % 2), DataFileSize: 16 << 10, Sync: m.S, BytesPerSync: m.B}, NOps: -2}})
	}
	// cross-check of the instrumentation against strace (standard I/O)
	nt := 3
	if tier == "thorough" {
		nt = 18
	}
	for i := 0; i < nt; i++ {
		m := modes[i%len(modes)]
		out = append(out, core.Case{Index: len(out), ID: fmt.Sprintf("c13-strace-%02d", i), Seed: r.U64(), Data: seqCase{Cfg: core.Config{Sync: m.S, BytesPerSync: m.B}, NOps: -1}})
	}
	return out
}

type c13Write struct {
	path  string
	end   int64
	bytes int64 // non-padding
	kind  string
	step  int
}

func (c13) Run(c core.Case, w *core.Worker) core.Result {
	sc := c.Data.(seqCase)
	if sc.NOps == -2 {
		return runC13Concurrent(c, sc, w)
	}
	if sc.NOps < 0 {
		return runStraceCase(c, w, int(sc.Cfg.Sync), int(sc.Cfg.BytesPerSync))
	}
	res := core.Result{}
	dir := w.Dir("db")
	io := mon.NewIOLog()
	io.Track = dir
	r := core.NewRng(c.Seed)
	s := core.NewSession(dir, sc.Cfg, &res)
	s.IO = io
	var cur core.Op
	curKind := "open"
	var writes []c13Write
	violated := false
	pendingSum := int64(0) // unflushed Put/Delete bytes at the last API return (Threshold)
	inDir := func(p string) bool { return filepath.Dir(p) == dir }
	fail := func(rule, msg string) {
		if violated {
			return
		}
		violated = true
		res.Violate(fmt.Sprintf("step %d (%s): %s", s.Step, cur.String(), msg),
			map[string]string{"class": "sync-policy", "rule": rule, "io": fmt.Sprint(sc.Cfg.FileIO), "sync": fmt.Sprint(sc.Cfg.Sync)},
			map[string]any{"config": sc.Cfg, "ops_tail": lastN(s.Log, 25)})
	}
	unflushedAll := func() (string, int64) {
		for p, f := range io.Files() {
			if inDir(p) && f.Durable < f.Written {
				return filepath.Base(p), f.Written - f.Durable
			}
		}
		return "", 0
	}
	io.OnEvent = func(ev mon.Event, buf []byte) {
		res.Add(ev.Kind, 1)
		switch ev.Kind {
		case "io.write":
			if !inDir(ev.Path) {
				return
			}
			_, pad, _ := vfmt.ScanRaw(buf, ev.Off)
			writes = append(writes, c13Write{path: ev.Path, end: ev.Off + int64(ev.N), bytes: int64(ev.N) - pad, kind: curKind, step: s.Step})
		case "io.open":
			if ev.Name == "created" && inDir(ev.Path) && strings.HasSuffix(ev.Path, ".data") {
				res.Add("rule_rotation", 1)
				for p, f := range io.Files() {
					if p != ev.Path && inDir(p) && strings.HasSuffix(p, ".data") && f.Durable < f.Written {
						fail("rotation", fmt.Sprintf("data file %s created while %s still has %d unflushed bytes (written %d, durable %d)", filepath.Base(ev.Path), filepath.Base(p), f.Written-f.Durable, f.Written, f.Durable))
					}
				}
			}
		case "api.return":
			files := io.Files()
			durable := func(wr c13Write) bool {
				f, ok := files[wr.path]
				return !ok || wr.end <= f.Durable // a removed/renamed-away file no longer holds acknowledged bytes
			}
			switch cur.Kind {
			case "put", "del":
				switch sc.Cfg.Sync {
				case 1:
					res.Add("rule_always", 1)
					for _, wr := range writes {
						if (wr.kind == "put" || wr.kind == "del") && !durable(wr) {
							fail("always", fmt.Sprintf("SyncStrategy Always: %s returned while %d bytes written by %s (step %d) to %s are not flushed", cur.Kind, wr.bytes, wr.kind, wr.step, filepath.Base(wr.path)))
							break
						}
					}
				case 2:
					res.Add("rule_threshold", 1)
					var sum int64
					for _, wr := range writes {
						if (wr.kind == "put" || wr.kind == "del") && !durable(wr) {
							sum += wr.bytes
						}
					}
					if sum >= int64(sc.Cfg.BytesPerSync) {
						fail("threshold", fmt.Sprintf("SyncStrategy Threshold(%d): %d bytes appended by acknowledged Puts/Deletes are unflushed at the return of %s", sc.Cfg.BytesPerSync, sum, cur.Kind))
					}
					if sum > 0 {
						res.Add("threshold_returns_with_pending_bytes", 1)
					}
					if sum == int64(sc.Cfg.BytesPerSync)-1 || sum == 0 {
						res.Add("threshold_edge_returns", 1)
					}
					pendingSum = sum
				}
			case "batch":
				if cur.BSync {
					res.Add("rule_batch_sync", 1)
					for _, wr := range writes {
						if wr.step == s.Step && !durable(wr) {
							fail("batch-sync", fmt.Sprintf("Commit of a Sync batch returned while %d bytes it wrote to %s (ending at offset %d) are not flushed", wr.bytes, filepath.Base(wr.path), wr.end))
							break
						}
					}
				}
			case "sync":
				res.Add("rule_sync", 1)
				if p, n := unflushedAll(); n > 0 {
					fail("sync", fmt.Sprintf("Sync() returned while %s has %d unflushed bytes", p, n))
				}
			case "restart":
				// evaluated at the mark emitted after Close (see below)
			}
			// prune durable writes
			kept := writes[:0]
			for _, wr := range writes {
				if !durable(wr) {
					kept = append(kept, wr)
				}
			}
			writes = kept
		case "api.call":
			if ev.Name == "closed" {
				res.Add("rule_close", 1)
				if p, n := unflushedAll(); n > 0 {
					fail("close", fmt.Sprintf("Close() returned while %s has %d unflushed bytes", p, n))
				}
			}
		}
	}
	defer io.Install()()
	if sc.Flag == 1 {
		prevH := vhook.Set(nil)
		vhook.Set(bgMergeDelay{inner: prevH, cur: &curKind, res: &res})
		defer vhook.Set(prevH)
	}
	g := &core.Gen{R: r, Keys: core.GenKeys(r, sc.NKeys), Cfg: sc.Cfg, EndOff: io.ActiveEnd, NoRestart: true, MaxVal: 70 << 10}
	// with the timer-driven merge on, the workload itself never closes, merges or backs up in
	// mid-run: Close/Backup/Merge racing with a running Merge are outside C13 (and C09 lists
	// them as exclusions); the final Close is placed between two ticks
	g.NoMerge = sc.Flag == 1
	var tOpen time.Time
	if c.Index%4 == 3 {
		// the run starts on a directory left by an unclean shutdown: a torn record at the end of
		// the newest file (standard I/O) or files still at their pre-extended size (mmap)
		if !c13Unclean(dir, sc.Cfg, r, s) {
			res.Violate("harness: could not prepare the unclean directory", map[string]string{"class": "harness"}, nil)
			return res
		}
		res.Add("cases_starting_after_unclean_shutdown", 1)
	}
	if !s.Open() {
		return res
	}
	tOpen = time.Now()
	closeAndCheck := func() bool {
		if !s.Close() {
			return false
		}
		io.Mark("api.call", "closed", s.Step)
		io.Mark("api.return", "closed-done", s.Step)
		return true
	}
	pauseAt := map[int]bool{}
	if sc.Flag == 1 {
		pauseAt[r.Range(3, sc.NOps/2)] = true
		pauseAt[r.Range(sc.NOps/2, sc.NOps-1)] = true
	}
	for i := 0; i < sc.NOps && !s.Dead && !violated; i++ {
		if pauseAt[i] {
			// a slow trickle of small puts for a little more than one tick of the background
			// merge timer; the background Merge is stretched at its first hook point so that
			// some of them are acknowledged while it runs
			t0 := time.Now()
			for time.Since(t0) < 1250*time.Millisecond && !s.Dead && !violated {
				cur = core.Op{Kind: "put", Key: g.Key(), VLen: r.Range(20, 200), VSeed: r.U64()}
				curKind = "put"
				s.Exec(cur)
				curKind = "between"
				time.Sleep(4 * time.Millisecond)
			}
			res.Add("pauses_over_a_background_merge_tick", 1)
		}
		op := g.Next()
		if sc.Flag == 0 && r.Chance(1, 25) {
			// Close + reopen as explicit steps so that the Close rule is evaluated between them
			cur = core.Op{Kind: "close"}
			curKind = "close"
			s.Step++
			s.Log = append(s.Log, "close+open")
			if !closeAndCheck() || !s.Open() {
				break
			}
			res.Add("restarts", 1)
			continue
		}
		if sc.Flag == 0 && r.Chance(1, 20) {
			// Backup in the middle (under mmap it unmaps and shrinks every file), then an explicit
			// Sync: whatever was unflushed before the Backup must be durable when Sync returns
			bdir := w.Dir("bk")
			cur = core.Op{Kind: "backup"}
			curKind = "backup"
			s.Step++
			s.Log = append(s.Log, "backup")
			var berr error
			core.Safe(func() { berr = s.DB.Backup(bdir) })
			os.RemoveAll(bdir)
			if berr != nil {
				fail("backup", "Backup failed: "+berr.Error())
				break
			}
			res.Add("backups", 1)
			cur = core.Op{Kind: "sync"}
			curKind = "sync"
			if !s.Exec(cur) {
				break
			}
			curKind = "between"
			continue
		}
		if sc.Cfg.Sync == 2 && sc.Cfg.BytesPerSync > 1 && r.Chance(1, 3) {
			// aim the cumulative unflushed size exactly at the threshold (and one below / above)
			want := int64(sc.Cfg.BytesPerSync) - pendingSum + int64(r.Range(-1, 1))
			k := g.Key()
			if want >= int64(12+len(k)) && want < 60<<10 {
				for v := int(want) - 40 - len(k); v <= int(want); v++ {
					if v < 0 {
						continue
					}
					if _, _, size := vfmt.Layout(io.ActiveEnd(), vfmt.EncodedLen(len(k), v, 0)); size == want {
						op = core.Op{Kind: "put", Key: k, VLen: v, VSeed: r.U64()}
						res.Add("threshold_aimed_puts", 1)
						break
					}
				}
			}
		}
		cur = op
		curKind = op.Kind
		if !s.Exec(op) {
			break
		}
		curKind = "between"
		if e := io.ActiveEnd(); e > 0 && e%vfmt.Block == 0 && (op.Kind == "put" || op.Kind == "batch") && r.Chance(2, 3) {
			// the active file ends exactly on a block boundary: an explicit Sync here
			res.Add("syncs_at_block_boundary", 1)
			cur = core.Op{Kind: "sync"}
			curKind = "sync"
			if !s.Exec(cur) {
				break
			}
			curKind = "between"
		}
	}
	if s.DB != nil && !s.Dead {
		if sc.Flag == 1 && !tOpen.IsZero() {
			// ticks come at tOpen + k seconds; close 350..650 ms after one
			for ph := time.Since(tOpen) % time.Second; ph < 350*time.Millisecond || ph > 650*time.Millisecond; ph = time.Since(tOpen) % time.Second {
				time.Sleep(20 * time.Millisecond)
			}
		}
		cur = core.Op{Kind: "close"}
		closeAndCheck()
	}
	evals := res.Counters["rule_always"] + res.Counters["rule_threshold"] + res.Counters["rule_batch_sync"] + res.Counters["rule_sync"] + res.Counters["rule_close"] + res.Counters["rule_rotation"]
	res.Add("rule_evaluations", evals)
	res.Nontrivial = res.Counters["rule_rotation"] > 1 && (res.Counters["rule_batch_sync"] > 0 || res.Counters["rule_sync"] > 0) && evals >= 40
	res.Hash = core.HashBytes([]byte(sc.Cfg.String()), []byte(fmt.Sprint(s.Log)))
	res.SetAdd("sync_mode", fmt.Sprintf("io%d/sync%d:%d", sc.Cfg.FileIO, sc.Cfg.Sync, sc.Cfg.BytesPerSync))
	if c.Index < 2 {
		res.Sample = map[string]any{"config": sc.Cfg, "ops": firstN(s.Log, 30), "rule_evaluations": evals}
	}
	return res
}

// c13Unclean writes a short history with the hooks detached, closes, and then makes the
// directory look like the process had died: standard I/O gets a torn record appended to the
// newest data file, mmap files are extended back to the 512 MiB unit. The model of s is kept.
func c13Unclean(dir string, cfg core.Config, r *core.Rng, s *core.Session) bool {
	old := vhook.Set(nil)
	defer vhook.Set(old)
	if !s.Open() {
		return false
	}
	for i := 0; i < 12 && !s.Dead; i++ {
		s.Exec(core.Op{Kind: "put", Key: []byte(fmt.Sprintf("pre%d", i%4)), VLen: r.Range(10, 900), VSeed: r.U64() | 1})
	}
	if s.Dead || !s.Close() {
		return false
	}
	files := core.DataFiles(dir)
	if len(files) == 0 {
		return false
	}
	newest := filepath.Join(dir, files[len(files)-1])
	if cfg.FileIO == 0 {
		st, err := os.Stat(newest)
		if err != nil {
			return false
		}
		// a chunk header announcing more payload than follows: header (crc irrelevant) + partial payload
		room := int(vfmt.Block - st.Size()%vfmt.Block)
		if room < 64 {
			return true // too close to the block end to place a torn chunk; leave the directory clean
		}
		want := r.Range(40, room-vfmt.Header-1)
		have := r.Range(1, want-1)
		torn := make([]byte, vfmt.Header+have)
		torn[4], torn[5], torn[6] = byte(want), byte(want>>8), 0
		copy(torn[vfmt.Header:], core.FillValue(r.U64()|1, have))
		f, err := os.OpenFile(newest, os.O_WRONLY|os.O_APPEND, 0644)
		if err != nil {
			return false
		}
		f.Write(torn)
		f.Close()
		return true
	}
	for _, name := range files {
		p := filepath.Join(dir, name)
		if err := os.Truncate(p, 512<<20); err != nil {
			return false
		}
	}
	return true
}

// runC13Concurrent: the sync policy at the returns of one writer while Merge runs concurrently.
func runC13Concurrent(c core.Case, sc seqCase, w *core.Worker) core.Result {
	res := core.Result{}
	dir := w.Dir("db")
	io := mon.NewIOLog()
	io.Track = dir
	r := core.NewRng(c.Seed)
	inDir := func(p string) bool { return filepath.Dir(p) == dir }
	var mu sync.Mutex
	type pw struct {
		path  string
		end   int64
		bytes int64
	}
	var putWrites []pw // writes attributed to the writer's Put calls (only the writer appends in dir)
	io.OnEvent = func(ev mon.Event, buf []byte) {
		switch ev.Kind {
		case "io.write":
			if inDir(ev.Path) {
				_, pad, _ := vfmt.ScanRaw(buf, ev.Off)
				mu.Lock()
				putWrites = append(putWrites, pw{ev.Path, ev.Off + int64(ev.N), int64(ev.N) - pad})
				mu.Unlock()
			}
		case "io.sync":
			// the engine is stopped right before the flush: widen the window
			if (ev.Seq>>2)%3 == 0 {
				time.Sleep(300 * time.Microsecond)
			} else {
				runtime.Gosched()
			}
		}
	}
	defer io.Install()()
	db, err := kv.Open(sc.Cfg.Options(dir))
	if err != nil {
		res.Violate("Open failed: "+err.Error(), map[string]string{"class": "open-error"}, nil)
		return res
	}
	stop := make(chan struct{})
	var wg sync.WaitGroup
	wg.Add(1)
	merges := 0
	go func() {
		defer wg.Done()
		for {
			select {
			case <-stop:
				return
			default:
			}
			db.Merge()
			merges++
			time.Sleep(200 * time.Microsecond)
		}
	}()
	violated := ""
	keys := core.GenKeys(r, 5)
	for i := 0; i < 400 && violated == ""; i++ {
		k := keys[r.Intn(len(keys))]
		if err := db.Put(k, core.FillValue(r.U64()|1, r.Range(10, 700))); err != nil {
			violated = "Put failed: " + err.Error()
			break
		}
		files := io.Files()
		if sc.Cfg.Sync == 2 {
			res.Add("rule_threshold_concurrent", 1)
			var sum int64
			mu.Lock()
			kept := putWrites[:0]
			for _, wr := range putWrites {
				if f, ok := files[wr.path]; ok && wr.end > f.Durable {
					sum += wr.bytes
					kept = append(kept, wr)
				}
			}
			putWrites = kept
			mu.Unlock()
			if sum >= int64(sc.Cfg.BytesPerSync) {
				violated = fmt.Sprintf("Threshold(%d): %d bytes appended by acknowledged Puts are unflushed at the return of a Put while Merge runs concurrently", sc.Cfg.BytesPerSync, sum)
			}
		}
		if i%5 == 4 {
			before := io.Files() // what had been written when Sync is called
			if err := db.Sync(); err != nil {
				violated = "Sync failed: " + err.Error()
				break
			}
			after := io.Files()
			res.Add("rule_sync_concurrent", 1)
			for p, f := range before {
				if !inDir(p) {
					continue
				}
				if a, ok := after[p]; ok && a.Durable < f.Written {
					violated = fmt.Sprintf("Sync() returned while %s has %d bytes that were written before the call and are not flushed (written %d, durable %d), with Merge running concurrently", filepath.Base(p), f.Written-a.Durable, f.Written, a.Durable)
					break
				}
			}
		}
	}
	close(stop)
	wg.Wait()
	core.Safe(func() { db.Close() })
	res.Add("concurrent_merges", int64(merges))
	if violated != "" {
		res.Violate(violated, map[string]string{"class": "sync-policy", "rule": "concurrent", "io": fmt.Sprint(sc.Cfg.FileIO), "sync": fmt.Sprint(sc.Cfg.Sync)}, map[string]any{"config": sc.Cfg})
	}
	res.Nontrivial = merges > 2
	res.Hash = core.HashBytes([]byte(fmt.Sprint("conc", c.Seed, sc.Cfg)))
	if c.Index%6 == 0 {
		res.Sample = map[string]any{"kind": "one writer + concurrent Merge", "config": sc.Cfg, "merges": merges}
	}
	return res
}

// bgMergeDelay stretches a Merge that was not called by the workload (the timer-driven one).
type bgMergeDelay struct {
	inner vhook.Handler
	cur   *string
	res   *core.Result
}

func (d bgMergeDelay) IO(kind, path string, off int64, n int, buf []byte) {
	d.inner.IO(kind, path, off, n, buf)
}
func (d bgMergeDelay) FS(kind, a, b string) { d.inner.FS(kind, a, b) }
func (d bgMergeDelay) Point(name string) {
	if name == "merge.afterRotate" && *d.cur != "merge" {
		time.Sleep(60 * time.Millisecond)
	}
	d.inner.Point(name)
}
