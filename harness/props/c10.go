package props

import (
	"bytes"
	"fmt"
	"sort"

	kv "github.com/XiXi-2024/xixi-kv"
	"github.com/XiXi-2024/xixi-kv/datafile"
	"github.com/XiXi-2024/xixi-kv/index"
	"verif/harness/core"
)

// C10 — iterators, ListKeys and Fold enumerate a sorted, complete, stable snapshot.
type c10 struct{}

func init() { core.Register(c10{}) }

func (c10) ID() string    { return "C10" }
func (c10) Level() string { return "exploration" }
func (c10) Rule() string {
	return "cases = (level index|db, index type, shard count in {1,2,3,4,16,64,1024}, key set of 0..300 keys with shared prefixes / 0xff-heavy keys / one-key and empty sets, plus large populations of 4 Ki..300 K keys sized at and around powers of two and round decimal numbers, direction, prefix incl. empty, whole-key and longer-than-key prefixes); per case 6..12 iterators, created in groups of 1..3 whose lifetimes overlap (later ones are created while earlier ones are partly consumed, half of the time with no write in between; calls then alternate between them at random, with ListKeys/Fold in between), each driven by 5..200 calls of Rewind/Seek/Next/Valid/Key/Value where the first call on a fresh iterator is Rewind or Seek and every Seek target lies at or ahead of the cursor in iteration order (on an exhausted iterator only targets beyond the last key); the first iterator of every case (the first two over a large population) starts with a complete Rewind..Next walk to exhaustion; after EVERY call (Valid, Key, Value) is compared with a cursor over the sorted snapshot taken from the model at creation, and the slice Value returned is then overwritten by the harness, and the harness appends to every key it is handed by Key, ListKeys and Fold (writing into its spare capacity, if any) (Value is asked again at the same position after interleaved writes); between calls the harness overwrites, deletes and inserts keys before/after the cursor, which must not change any output; ListKeys and Fold (incl. early stop) must equal the same ordered snapshot. Non-trivial: iterator with >=2 non-empty shards, >=1 Seek after a Next and >=1 Rewind after exhaustion; distinct = hash of (level, type, shards, keys, call log)"
}
func (c10) Assumptions() []string {
	return []string{"Seek to a target behind the cursor is never generated (unclaimed)", "Key/Value/Next on a never-positioned (fresh) iterator are not generated: position first with Rewind or Seek",
		"Value() is only called while Valid()", "sequential: writes are interleaved between calls, not concurrent with them"}
}
func (c10) Required() []string {
	return []string{"iter_calls_compared", "seeks", "rewinds_after_exhaustion", "writes_interleaved", "full_walks", "iterators_with_overlapping_lifetimes", "cases_large_population", "listkeys_compared", "fold_compared", "iters_index_level", "iters_db_level"}
}

type c10Case struct {
	Level   string
	Typ     int8
	Shards  int
	NKeys   int
	IO      byte
	KeyMode int
}

func (c10) Cases(tier string, seed uint64) []core.Case {
	n := 400
	if tier == "thorough" {
		n = 400000
	}
	r := core.NewRng(core.Mix(seed, 0xC10))
	shards := []int{1, 2, 3, 4, 16, 64, 1024}
	var out []core.Case
	for i := 0; i < n; i++ {
		lvl := "index"
		if i%2 == 1 {
			lvl = "db"
		}
		nk := r.Range(0, 300)
		switch r.Intn(8) {
		case 0:
			nk = r.Range(0, 2)
		case 1:
			nk = r.Range(1, 12)
		}
		if lvl == "db" && nk > 120 {
			nk = r.Range(20, 120)
		}
		out = append(out, core.Case{Index: i, ID: fmt.Sprintf("c10-%05d", i), Seed: r.U64(),
			Data: c10Case{Level: lvl, Typ: core.IndexTypes[(i/2)%3], Shards: shards[(i/6)%len(shards)], NKeys: nk, IO: byte(r.Intn(2)), KeyMode: r.Intn(3)}})
	}
	// large populations: sizes at and around powers of two and round decimal numbers, where
	// size-gated code paths (parallel snapshots, resized tables, spilled buffers) switch on
	nl := 10
	if tier == "thorough" {
		nl = 600
	}
	bases := []int{1 << 16, 1 << 17, 100000, 1 << 14, 1 << 15, 1 << 12, 50000, 1 << 18, 10000, 1 << 13}
	for j := 0; j < nl; j++ {
		i := n + j
		nk := bases[j%len(bases)]
		switch (j / len(bases)) % 4 {
		case 0:
			nk += r.Range(0, 2)
		case 1:
			nk += r.Range(3, 5000)
		case 2:
			nk -= r.Range(1, 2)
		default:
			nk = r.Range(1<<12, 300000)
		}
		lvl := "index"
		if j%2 == 1 {
			lvl = "db"
		}
		out = append(out, core.Case{Index: i, ID: fmt.Sprintf("c10-L%04d", j), Seed: r.U64(),
			Data: c10Case{Level: lvl, Typ: core.IndexTypes[(j/2)%3], Shards: []int{16, 2, 4, 1, 3, 64}[(j/3)%6], NKeys: nk, IO: byte(r.Intn(2)), KeyMode: 3}})
	}
	return out
}

func c10Keys(r *core.Rng, n, mode int) [][]byte {
	if mode == 3 {
		// many distinct keys: a short shared prefix family + 5 mixed bytes
		seen := make(map[string]bool, n)
		out := make([][]byte, 0, n)
		pre := []string{"u", "u/", "v", ""}
		for x := r.U64(); len(out) < n; x++ {
			h := core.Mix(x, 0x10c)
			k := append([]byte(pre[h&3]), byte(h>>8), byte(h>>16), byte(h>>24), byte(h>>32), byte(h>>40))
			if !seen[string(k)] {
				seen[string(k)] = true
				out = append(out, k)
			}
		}
		return out
	}
	seen := map[string]bool{}
	var out [][]byte
	alpha := []byte("abk")
	if mode == 1 {
		alpha = []byte{0xff, 0xfe, 0x00, 'a'}
	}
	for tries := 0; len(out) < n && tries < n*20+50; tries++ {
		l := r.Range(1, 6)
		if mode == 2 {
			l = r.Range(1, 3)
		}
		k := make([]byte, l)
		for i := range k {
			k[i] = alpha[r.Intn(len(alpha))]
		}
		if !seen[string(k)] {
			seen[string(k)] = true
			out = append(out, k)
		}
	}
	return out
}

type kvPair struct {
	k []byte
	v []byte            // db level: value
	p *datafile.DataPos // index level: position
}

// iterUnderTest abstracts the two levels.
type iterUnderTest interface {
	Rewind()
	Seek([]byte)
	Next()
	Valid() bool
	Key() []byte
	ValueEq(want kvPair) (bool, string)
	Close()
}

type idxIter struct{ it *index.IndexIterator }

func (i idxIter) Rewind()       { i.it.Rewind() }
func (i idxIter) Seek(k []byte) { i.it.Seek(k) }
func (i idxIter) Next()         { i.it.Next() }
func (i idxIter) Valid() bool   { return i.it.Valid() }
func (i idxIter) Key() []byte   { return i.it.Key() }
func (i idxIter) Close()        { i.it.Close() }
func (i idxIter) ValueEq(w kvPair) (bool, string) {
	p := i.it.Value()
	if p == nil || *p != *w.p {
		return false, fmt.Sprintf("Value()=%v want %v", p, *w.p)
	}
	return true, ""
}

type dbIter struct{ it *kv.Iterator }

func (i dbIter) Rewind()       { i.it.Rewind() }
func (i dbIter) Seek(k []byte) { i.it.Seek(k) }
func (i dbIter) Next()         { i.it.Next() }
func (i dbIter) Valid() bool   { return i.it.Valid() }
func (i dbIter) Key() []byte   { return i.it.Key() }
func (i dbIter) Close()        { i.it.Close() }
func (i dbIter) ValueEq(w kvPair) (bool, string) {
	v, err := i.it.Value()
	if err != nil || !bytes.Equal(v, w.v) {
		return false, fmt.Sprintf("Value()=len %d h=%s err=%v, want creation-time value len %d h=%s", len(v), core.HashBytes(v)[:8], err, len(w.v), core.HashBytes(w.v)[:8])
	}
	for j := range v {
		v[j] = 0xEE // the caller owns the returned slice; the next Value() at this position must not see this
	}
	return true, ""
}

func (c10) Run(c core.Case, w *core.Worker) core.Result {
	cc := c.Data.(c10Case)
	res := core.Result{}
	r := core.NewRng(c.Seed)
	keys := c10Keys(r, cc.NKeys, cc.KeyMode)
	feat := map[string]string{"class": "iterator", "level": cc.Level, "index": fmt.Sprint(cc.Typ), "shards": fmt.Sprint(cc.Shards)}
	var calllog []string
	fail := func(msg string) {
		res.Violate(msg, feat, map[string]any{"case": cc, "nkeys": len(keys), "calls": lastN(calllog, 40)})
	}
	// the store under test + model
	model := map[string]kvPair{}
	var sidx *index.ShardedIndex
	var db *kv.DB
	posN := uint32(0)
	put := func(k []byte) {
		posN++
		if cc.Level == "index" {
			p := &datafile.DataPos{Fid: posN % 7, BlockID: posN, Offset: posN * 3, Size: posN + 10}
			sidx.Put(append([]byte{}, k...), p)
			model[string(k)] = kvPair{k: append([]byte{}, k...), p: p}
		} else {
			v := core.FillValue(r.U64(), r.Range(0, 300))
			if cc.KeyMode == 3 {
				v = v[:len(v)%9]
			}
			if err := db.Put(k, v); err != nil {
				fail("Put failed: " + err.Error())
			}
			model[string(k)] = kvPair{k: append([]byte{}, k...), v: v}
		}
	}
	del := func(k []byte) {
		if cc.Level == "index" {
			sidx.Delete(k)
		} else {
			db.Delete(k)
		}
		delete(model, string(k))
	}
	if cc.Level == "index" {
		sidx = index.NewShardedIndex(cc.Typ, cc.Shards)
		res.Add("iters_index_level", 0)
	} else {
		var err error
		cfg := core.Config{IndexType: cc.Typ, ShardNum: cc.Shards, FileIO: cc.IO, DataFileSize: 64 << 10}
		if cc.KeyMode == 3 {
			cfg.DataFileSize = 1 << 20
		}
		db, err = kv.Open(cfg.Options(w.Dir("db")))
		if err != nil {
			fail("Open: " + err.Error())
			return res
		}
		defer func() {
			core.Safe(func() { db.Close() })
		}()
	}
	for _, k := range keys {
		put(k)
	}
	extra := c10Keys(r, 30, cc.KeyMode) // keys used for interleaved writes
	nontrivial := false
	nIters := r.Range(6, 12)
	if cc.KeyMode == 3 {
		nIters = r.Range(3, 4)
		res.Add("cases_large_population", 1)
		res.Add("keys_in_large_populations", int64(len(keys)))
		if len(keys) >= 1<<16 {
			res.Add("cases_with_64Ki_keys_or_more", 1)
		}
	}
	type liveIter struct {
		ut                                        iterUnderTest
		snap                                      []kvPair
		pos                                       int // -1 = fresh (unpositioned)
		reverse                                   bool
		ncalls, done                              int
		reuseSeek                                 bool
		seekBuf                                   []byte
		seekAfterNext, rewindAfterEx, lastWasNext bool
	}
	cmpState := func(li *liveIter, call string) bool {
		res.Add("iter_calls_compared", 1)
		ut, pos, snap := li.ut, li.pos, li.snap
		valid := ut.Valid()
		wantValid := pos >= 0 && pos < len(snap)
		if valid != wantValid {
			fail(fmt.Sprintf("after %s: Valid()=%v, model cursor says %v (pos %d of %d)", call, valid, wantValid, pos, len(snap)))
			return false
		}
		if !valid {
			if k := ut.Key(); k != nil {
				fail(fmt.Sprintf("after %s: exhausted iterator returns Key()=%q", call, k))
				return false
			}
			return true
		}
		if k := ut.Key(); !bytes.Equal(k, snap[pos].k) {
			fail(fmt.Sprintf("after %s: Key()=%q, model cursor at %q (pos %d of %d)", call, k, snap[pos].k, pos, len(snap)))
			return false
		}
		if ok, msg := ut.ValueEq(snap[pos]); !ok {
			fail(fmt.Sprintf("after %s at key %q: %s", call, snap[pos].k, msg))
			return false
		}
		// the caller derives another key from the one it was handed (append writes into spare
		// capacity when there is any): no other key the iterator yields may change
		_ = append(ut.Key(), 0xEE, 0xEE, 0xEE)
		return true
	}
	nCreated := 0
	newIter := func() *liveIter {
		li := &liveIter{pos: -1, reverse: r.Chance(1, 2), ncalls: r.Range(5, 200), reuseSeek: r.Chance(1, 2)}
		if cc.KeyMode == 3 {
			li.reverse = nCreated%2 == 1
		}
		var prefix []byte
		if cc.Level == "db" && len(keys) > 0 {
			switch r.Intn(5) {
			case 0:
				prefix = nil
			case 1:
				prefix = keys[r.Intn(len(keys))] // whole key
			case 2:
				prefix = append(append([]byte{}, keys[r.Intn(len(keys))]...), 'z', 'z') // longer than keys
			default:
				k := keys[r.Intn(len(keys))]
				prefix = k[:r.Range(1, len(k))]
			}
		}
		for _, p := range model {
			if bytes.HasPrefix(p.k, prefix) {
				li.snap = append(li.snap, p)
			}
		}
		reverse := li.reverse
		sort.Slice(li.snap, func(i, j int) bool {
			c := bytes.Compare(li.snap[i].k, li.snap[j].k)
			if reverse {
				return c > 0
			}
			return c < 0
		})
		pv, st := core.Safe(func() {
			if cc.Level == "index" {
				li.ut = idxIter{sidx.Iterator(reverse)}
				res.Add("iters_index_level", 1)
			} else {
				li.ut = dbIter{db.NewIterator(kv.IteratorOptions{Prefix: prefix, Reverse: reverse})}
				res.Add("iters_db_level", 1)
			}
		})
		if pv != nil {
			res.Violate(fmt.Sprintf("iterator creation panicked: %v", pv), feat, st)
			return nil
		}
		nCreated++
		calllog = append(calllog, fmt.Sprintf("-- new iterator #%d reverse=%v prefix=%q snapshot=%d keys", nCreated, reverse, prefix, len(li.snap)))
		return li
	}
	fullWalk := func(li *liveIter) bool {
		// a complete walk: Rewind, then Next until exhausted, every position compared
		li.ut.Rewind()
		li.pos = 0
		calllog = append(calllog, "Rewind (full walk)")
		for cmpState(li, "Rewind/Next of the full walk") && li.pos < len(li.snap) {
			li.ut.Next()
			li.pos++
		}
		if res.Verdict == "violated" {
			return false
		}
		res.Add("full_walks", 1)
		res.Add("full_walk_positions", int64(len(li.snap)))
		return true
	}
	// step performs one call on li and compares; false = stop the case
	step := func(li *liveIter, allowWrite bool) bool {
		li.done++
		var call string
		choice := r.Intn(100)
		if li.pos == -1 {
			if choice < 50 {
				choice = 0 // rewind
			} else {
				choice = 10 // seek
			}
		}
		switch {
		case choice < 8:
			call = "Rewind"
			if li.pos >= len(li.snap) && li.pos >= 0 {
				li.rewindAfterEx = true
				res.Add("rewinds_after_exhaustion", 1)
			}
			li.ut.Rewind()
			li.pos = 0
			li.lastWasNext = false
		case choice < 30:
			// Seek to a target at or ahead of the cursor
			var target []byte
			if li.pos >= len(li.snap) && li.pos >= 0 {
				// exhausted: only beyond the last key
				if len(li.snap) == 0 {
					target = []byte("m")
				} else if li.reverse {
					// beyond the last (smallest) key in li.reverse order = something smaller
					last := li.snap[len(li.snap)-1].k
					if len(last) == 1 && last[0] == 0 {
						return true
					}
					target = append([]byte{}, last...)
					if target[len(target)-1] > 0 {
						target[len(target)-1]--
					} else {
						target = target[:len(target)-1]
					}
					if len(target) == 0 {
						return true
					}
				} else {
					target = append(append([]byte{}, li.snap[len(li.snap)-1].k...), 0)
				}
			} else {
				lo := li.pos
				if lo < 0 {
					lo = 0
				}
				if len(li.snap) == 0 {
					target = []byte("b")
				} else {
					j := r.Range(lo, len(li.snap)-1)
					base := li.snap[j].k
					switch r.Intn(4) {
					case 0:
						target = append([]byte{}, base...) // exact
					case 1:
						// between keys, still not behind the cursor
						if li.reverse {
							if j+1 < len(li.snap) {
								target = append(append([]byte{}, li.snap[j+1].k...), 0) // just above the next (smaller) key
								if bytes.Compare(target, li.snap[j].k) >= 0 {
									target = append([]byte{}, base...)
								}
							} else {
								target = append([]byte{}, base...)
							}
						} else {
							target = append(append([]byte{}, base...), 0)
						}
					case 2:
						if li.reverse {
							target = []byte{0}
							if bytes.Compare(target, li.snap[len(li.snap)-1].k) >= 0 {
								target = append([]byte{}, base...)
							}
						} else {
							target = bytes.Repeat([]byte{0xff}, 8) // beyond everything
						}
					default:
						target = append([]byte{}, base...)
					}
					// never behind the cursor
					if li.pos >= 0 && li.pos < len(li.snap) {
						cur := li.snap[li.pos].k
						if (!li.reverse && bytes.Compare(target, cur) < 0) || (li.reverse && bytes.Compare(target, cur) > 0) {
							target = append([]byte{}, cur...)
						}
					}
				}
			}
			if len(target) == 0 {
				return true
			}
			if r.Chance(1, 25) && (li.reverse || li.pos <= 0) {
				// the empty key: below every key. Ascending it is only legal before anything was
				// passed (first key); descending it lies beyond the last key (exhausts)
				target = [][]byte{nil, {}}[r.Intn(2)]
				res.Add("seeks_to_the_empty_key", 1)
			}
			call = fmt.Sprintf("Seek(%q)", target)
			if li.lastWasNext {
				li.seekAfterNext = true
			}
			res.Add("seeks", 1)
			if li.reuseSeek {
				li.seekBuf = append(li.seekBuf[:0], target...)
				li.ut.Seek(li.seekBuf)
				res.Add("seeks_through_recycled_buffer", 1)
			} else {
				li.ut.Seek(target)
			}
			if !(li.pos >= len(li.snap) && li.pos >= 0) {
				reverse := li.reverse
				li.pos = sort.Search(len(li.snap), func(i int) bool {
					c := bytes.Compare(li.snap[i].k, target)
					if reverse {
						return c <= 0
					}
					return c >= 0
				})
			}
			li.lastWasNext = false
		default:
			call = "Next"
			li.ut.Next()
			if li.pos < len(li.snap) {
				li.pos++
			}
			li.lastWasNext = true
		}
		calllog = append(calllog, call)
		if !cmpState(li, call) {
			return false
		}
		// interleaved writes
		if allowWrite && r.Chance(1, 4) {
			k := extra[r.Intn(len(extra))]
			if len(keys) > 0 && r.Chance(1, 2) {
				k = keys[r.Intn(len(keys))]
			}
			if r.Chance(2, 3) {
				put(k)
				calllog = append(calllog, fmt.Sprintf("  [write put %q]", k))
			} else {
				del(k)
				calllog = append(calllog, fmt.Sprintf("  [write del %q]", k))
			}
			res.Add("writes_interleaved", 1)
			if li.pos >= 0 && !cmpState(li, "interleaved write") {
				return false
			}
		}
		return true
	}
	var checkListFold func()
	// ListKeys / Fold
	checkListFold = func() {
		var want []kvPair
		for _, p := range model {
			want = append(want, p)
		}
		sort.Slice(want, func(i, j int) bool { return bytes.Compare(want[i].k, want[j].k) < 0 })
		got := db.ListKeys()
		for i := range got {
			_ = append(got[i], 0xEE, 0xEE, 0xEE) // see above: must not reach any other returned key
		}
		res.Add("listkeys_compared", 1)
		if len(got) != len(want) {
			fail(fmt.Sprintf("ListKeys returned %d keys, model has %d", len(got), len(want)))
		} else {
			for i := range got {
				if !bytes.Equal(got[i], want[i].k) {
					fail(fmt.Sprintf("ListKeys[%d]=%q, sorted model has %q", i, got[i], want[i].k))
					break
				}
			}
		}
		stopAt := -1
		if len(want) > 0 && r.Chance(1, 2) {
			stopAt = r.Intn(len(want))
		}
		i := 0
		bad := ""
		err := db.Fold(func(k, v []byte) bool {
			if i >= len(want) || !bytes.Equal(k, want[i].k) || !bytes.Equal(v, want[i].v) {
				bad = fmt.Sprintf("Fold visit #%d = %q (len %d), model expects %q", i, k, len(v), keyAt(want, i))
				return false
			}
			_ = append(k, 0xEE, 0xEE, 0xEE)
			i++
			return i-1 != stopAt
		})
		res.Add("fold_compared", 1)
		if err != nil || bad != "" {
			fail(fmt.Sprintf("Fold: %s err=%v", bad, err))
		} else if stopAt >= 0 && i != stopAt+1 {
			fail(fmt.Sprintf("Fold did not stop when the callback returned false: visited %d, expected %d", i, stopAt+1))
		} else if stopAt < 0 && i != len(want) {
			fail(fmt.Sprintf("Fold visited %d of %d keys", i, len(want)))
		}
	}
	for nCreated < nIters && res.Verdict != "violated" {
		// a group of 1..3 iterators whose lifetimes overlap: created one after the other (the
		// earlier ones already partly consumed, half of the time with no write in between),
		// then driven in random alternation
		group := 1
		if r.Chance(1, 2) {
			group = r.Range(2, 3)
		}
		if cc.KeyMode == 3 {
			group = nIters // large populations: all iterators alive together, directions alternating
		}
		quiet := r.Chance(1, 2)
		var live []*liveIter
		var pv any
		var st string
		pv, st = core.Safe(func() {
			for g := 0; g < group && nCreated < nIters; g++ {
				li := newIter()
				if li == nil {
					return
				}
				live = append(live, li)
				if nCreated == 1 || (cc.KeyMode == 3 && nCreated == 2) {
					if !fullWalk(li) {
						return
					}
				}
				if g+1 < group {
					for _, l := range live {
						for k := r.Range(1, 8); k > 0 && l.done < l.ncalls; k-- {
							if !step(l, !quiet) {
								return
							}
						}
					}
				}
			}
			if len(live) > 1 {
				res.Add("iterators_with_overlapping_lifetimes", int64(len(live)))
			}
			for {
				var todo []*liveIter
				for _, l := range live {
					if l.done < l.ncalls {
						todo = append(todo, l)
					}
				}
				if len(todo) == 0 {
					break
				}
				if !step(todo[r.Intn(len(todo))], true) {
					return
				}
				if cc.Level == "db" && r.Chance(1, 60) && len(model) < 5000 {
					// ListKeys and Fold in the middle of the iterators' lives
					checkListFold()
					res.Add("listkeys_while_iterators_are_open", 1)
					if res.Verdict == "violated" {
						return
					}
				}
			}
			for _, l := range live {
				l.ut.Close()
			}
		})
		if pv != nil {
			res.Violate(fmt.Sprintf("iterator call panicked: %v", pv), feat, map[string]any{"calls": lastN(calllog, 30), "stack": st})
			return res
		}
		for _, l := range live {
			if l.seekAfterNext && l.rewindAfterEx {
				nontrivial = true
			}
		}
	}
	if cc.Level == "db" && res.Verdict != "violated" {
		checkListFold()
	} else if cc.Level == "index" {
		res.Add("listkeys_compared", 0)
	}
	res.Nontrivial = nontrivial && len(keys) >= 2
	res.Hash = core.HashBytes([]byte(fmt.Sprint(cc)), []byte(fmt.Sprint(keys)), []byte(fmt.Sprint(len(calllog))), []byte(fmt.Sprint(lastN(calllog, 50))))
	if c.Index < 2 {
		res.Sample = map[string]any{"case": cc, "nkeys": len(keys), "calls": firstN(calllog, 40)}
	}
	return res
}

func keyAt(w []kvPair, i int) []byte {
	if i < len(w) {
		return w[i].k
	}
	return nil
}
