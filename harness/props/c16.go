package props

import (
	"crypto/sha256"
	"encoding/hex"
	"encoding/json"
	"errors"
	"fmt"
	"os"
	"os/exec"
	"path/filepath"
	"runtime"
	"sort"
	"strconv"
	"sync"
	"sync/atomic"

	kv "github.com/XiXi-2024/xixi-kv"
	"github.com/XiXi-2024/xixi-kv/vhook"
	"verif/harness/core"
)

// C16 — at most one open database per directory.
type c16 struct{}

func init() {
	core.Register(c16{})
	core.Commands["opener"] = openerMain
}

func (c16) ID() string    { return "C16" }
func (c16) Level() string { return "exploration" }
func (c16) Rule() string {
	return "cases of seven kinds on one directory: (race) 2..8 child PROCESSES (the harness binary in opener mode) x 1..4 goroutines each perform 50..400 Open attempts in total, also racing on a directory that does not exist yet; every successful opener immediately creates a token file with O_CREAT|O_EXCL in a side directory, writes a few uniquely named keys, removes the token and closes: a failing O_EXCL is an exact, clock-free witness that two holders overlapped; every rejected Open must return ErrDatabaseIsUsing; at the end all acknowledged keys must be readable; (fingerprint) while one holder sits idle, bursts of Open attempts from other processes and goroutines must all be rejected and must leave names, sizes, modes, mtimes and SHA-256 of every file of the directory unchanged; (release) Opens made to fail after the lock was taken (non-numeric *.data name, corrupt first chunk, data file replaced by a directory) must leave the directory openable - from the same process and from a child - once the cause is removed; (closing) at every file-level close event inside Close, observed through the hooks, an Open of the same directory must still be rejected (the holder lets go of the lock last), for both I/O types; (fail-race) on 600..1000 fresh directories per case an Open that fails after taking the lock (unsupported I/O type) races with valid Opens from three goroutines that count themselves in and out: never more than one holder; (close-in-merge) Close is called from inside a running Merge of the same handle (at merge.afterRotate / merge.record / merge.beforeMarker, standard I/O): whatever Close answers, a second Open that succeeds while the first handle still accepts a Put means two owners; afterwards the directory must open and hold every key; (stale) Close on an already closed handle while another holder has the directory open must not let a third opener in. Non-trivial: race case with >=2 processes, >=1 rejected and >=2 successful Opens; distinct = hash of the case parameters and outcome counts"
}
func (c16) Assumptions() []string {
	return []string{"flock semantics of the host kernel", "child processes are real OS processes started from the harness binary"}
}
func (c16) Required() []string {
	return []string{"open_attempts", "open_successes", "open_rejections", "token_checks", "fingerprint_bursts", "release_checks", "stale_close_checks", "child_processes", "opens_during_close"}
}

type c16Case struct {
	Kind   string
	Procs  int
	Gor    int
	Tries  int
	Fresh  bool
	Holder int
}

func (c16) Cases(tier string, seed uint64) []core.Case {
	n := 32
	if tier == "thorough" {
		n = 6000
	}
	r := core.NewRng(core.Mix(seed, 0xC16))
	kinds := []string{"race", "race", "fingerprint", "release", "race", "stale", "closing", "race", "close-in-merge", "fail-race"}
	var out []core.Case
	for i := 0; i < n; i++ {
		out = append(out, core.Case{Index: i, ID: fmt.Sprintf("c16-%04d", i), Seed: r.U64(),
			Data: c16Case{Kind: kinds[i%len(kinds)], Procs: r.Range(2, 8), Gor: r.Range(1, 4), Tries: r.Range(50, 400), Fresh: r.Chance(1, 2)}})
	}
	return out
}

type openerReport struct {
	Attempts  int      `json:"attempts"`
	Successes int      `json:"successes"`
	Rejected  int      `json:"rejected"`
	Other     []string `json:"other_errors"`
	Overlaps  int      `json:"overlaps"`
	Keys      []string `json:"keys"`
	Panics    []string `json:"panics"`
}

// openerMain: vh opener <dir> <tokendir> <seed> <attempts> <goroutines> <hold: 0/1>
func openerMain(args []string) int {
	dir, tokdir := args[0], args[1]
	seed, _ := strconv.ParseUint(args[2], 10, 64)
	attempts, _ := strconv.Atoi(args[3])
	gor, _ := strconv.Atoi(args[4])
	var mu sync.Mutex
	rep := openerReport{}
	var wg sync.WaitGroup
	for g := 0; g < gor; g++ {
		wg.Add(1)
		go func(g int) {
			defer wg.Done()
			r := core.NewRng(core.Mix(seed, uint64(g)))
			for i := 0; i < attempts/gor; i++ {
				func() {
					defer func() {
						if p := recover(); p != nil {
							mu.Lock()
							rep.Panics = append(rep.Panics, fmt.Sprint(p))
							mu.Unlock()
						}
					}()
					cfg := core.Config{IndexType: core.IndexTypes[r.Intn(3)], ShardNum: 4, FileIO: 0, DataFileSize: 64 << 10}
					db, err := kv.Open(cfg.Options(dir))
					mu.Lock()
					rep.Attempts++
					mu.Unlock()
					if err != nil {
						mu.Lock()
						if errors.Is(err, kv.ErrDatabaseIsUsing) {
							rep.Rejected++
						} else {
							rep.Other = append(rep.Other, err.Error())
						}
						mu.Unlock()
						return
					}
					tok := filepath.Join(tokdir, "holder")
					f, terr := os.OpenFile(tok, os.O_CREATE|os.O_EXCL|os.O_WRONLY, 0644)
					if terr != nil {
						mu.Lock()
						rep.Overlaps++
						mu.Unlock()
					} else {
						fmt.Fprintf(f, "%d/%d", os.Getpid(), g)
						f.Close()
					}
					var keys []string
					for k := r.Range(0, 3); k > 0; k-- {
						key := fmt.Sprintf("p%d-g%d-%d-%d", os.Getpid(), g, i, k)
						if db.Put([]byte(key), []byte("v-"+key)) == nil {
							keys = append(keys, key)
						}
					}
					if terr == nil {
						os.Remove(tok)
					}
					cerr := db.Close()
					mu.Lock()
					rep.Successes++
					rep.Keys = append(rep.Keys, keys...)
					if cerr != nil {
						rep.Other = append(rep.Other, "close: "+cerr.Error())
					}
					mu.Unlock()
				}()
			}
		}(g)
	}
	wg.Wait()
	b, _ := json.Marshal(rep)
	fmt.Println(string(b))
	return 0
}

func runOpener(dir, tokdir string, seed uint64, attempts, gor int) (openerReport, error) {
	exe, _ := os.Executable()
	cmd := exec.Command(exe, "opener", dir, tokdir, fmt.Sprint(seed), fmt.Sprint(attempts), fmt.Sprint(gor))
	cmd.Env = append(os.Environ(), "GORACE=halt_on_error=0")
	out, err := cmd.Output()
	var rep openerReport
	if err != nil {
		return rep, fmt.Errorf("opener child failed: %v", err)
	}
	if jerr := json.Unmarshal(out, &rep); jerr != nil {
		return rep, fmt.Errorf("opener child output: %v: %.200s", jerr, out)
	}
	return rep, nil
}

func fingerprint(dir string) string {
	var l []string
	filepath.Walk(dir, func(p string, info os.FileInfo, err error) error {
		if err != nil || p == dir {
			return nil
		}
		rel, _ := filepath.Rel(dir, p)
		if info.IsDir() {
			l = append(l, fmt.Sprintf("%s/ %v", rel, info.Mode()))
			return nil
		}
		b, _ := os.ReadFile(p)
		h := sha256.Sum256(b)
		l = append(l, fmt.Sprintf("%s %d %v %d %s", rel, info.Size(), info.Mode(), info.ModTime().UnixNano(), hex.EncodeToString(h[:8])))
		return nil
	})
	sort.Strings(l)
	return fmt.Sprint(l)
}

func (c16) Run(c core.Case, w *core.Worker) core.Result {
	cc := c.Data.(c16Case)
	res := core.Result{}
	r := core.NewRng(c.Seed)
	dir := w.Dir("db")
	tokdir := w.Dir("tok")
	os.MkdirAll(tokdir, 0755)
	cfg := core.Config{IndexType: 3, ShardNum: 4, FileIO: 0, DataFileSize: 64 << 10}
	feat := func(kind string) map[string]string {
		return map[string]string{"class": "lock", "kind": kind, "case": cc.Kind}
	}
	fail := func(kind, msg string) {
		res.Violate(msg, feat(kind), map[string]any{"case": cc})
	}
	addRep := func(rep openerReport) {
		res.Add("open_attempts", int64(rep.Attempts))
		res.Add("open_successes", int64(rep.Successes))
		res.Add("open_rejections", int64(rep.Rejected))
		res.Add("token_checks", int64(rep.Successes))
	}
	switch cc.Kind {
	case "race":
		if !cc.Fresh {
			db, err := kv.Open(cfg.Options(dir))
			if err != nil {
				fail("open", "initial Open failed: "+err.Error())
				return res
			}
			db.Put([]byte("seed"), []byte("v"))
			db.Close()
		} else {
			res.Add("races_on_fresh_directory", 1)
		}
		var wg sync.WaitGroup
		reps := make([]openerReport, cc.Procs)
		errs := make([]error, cc.Procs)
		for p := 0; p < cc.Procs; p++ {
			wg.Add(1)
			go func(p int) {
				defer wg.Done()
				reps[p], errs[p] = runOpener(dir, tokdir, core.Mix(c.Seed, uint64(p)), cc.Tries/cc.Procs+1, cc.Gor)
			}(p)
		}
		wg.Wait()
		res.Add("child_processes", int64(cc.Procs))
		var allKeys []string
		succ, rej := 0, 0
		for p := range reps {
			if errs[p] != nil {
				fail("child", errs[p].Error())
				return res
			}
			addRep(reps[p])
			succ += reps[p].Successes
			rej += reps[p].Rejected
			if reps[p].Overlaps > 0 {
				fail("two-holders", fmt.Sprintf("%d times a process opened the directory while another holder's O_EXCL token existed: two databases were open on one directory", reps[p].Overlaps))
			}
			for _, e := range reps[p].Other {
				fail("reject-error", "an Open attempt failed with something other than the directory-in-use error: "+e)
				break
			}
			for _, e := range reps[p].Panics {
				fail("panic", "Open/Close panicked in a child: "+e)
				break
			}
			allKeys = append(allKeys, reps[p].Keys...)
		}
		if res.Verdict == "violated" {
			return res
		}
		// all acknowledged writes of all holders must be there
		db, err := kv.Open(cfg.Options(dir))
		if err != nil {
			fail("reopen", "the directory cannot be opened after all holders closed: "+err.Error())
			return res
		}
		for _, k := range allKeys {
			v, err := db.Get([]byte(k))
			if err != nil || string(v) != "v-"+k {
				fail("lost-write", fmt.Sprintf("key %s acknowledged by a holder is not readable afterwards (%v)", k, err))
				break
			}
		}
		res.Add("acknowledged_keys_verified", int64(len(allKeys)))
		db.Close()
		res.Nontrivial = cc.Procs >= 2 && rej > 0 && succ >= 2
	case "fingerprint":
		db, err := kv.Open(cfg.Options(dir))
		if err != nil {
			fail("open", err.Error())
			return res
		}
		for i := 0; i < 20; i++ {
			db.Put([]byte(fmt.Sprintf("k%d", i)), core.FillValue(uint64(i+1), 100+i))
		}
		db.Sync()
		for burst := 0; burst < 3; burst++ {
			before := fingerprint(dir)
			// same process, other goroutines
			var wg sync.WaitGroup
			for g := 0; g < cc.Gor; g++ {
				wg.Add(1)
				go func() {
					defer wg.Done()
					for i := 0; i < 10; i++ {
						db2, err := kv.Open(cfg.Options(dir))
						res2 := "rejected"
						if err == nil {
							db2.Close()
							res2 = "SUCCEEDED"
						} else if !errors.Is(err, kv.ErrDatabaseIsUsing) {
							res2 = "other error: " + err.Error()
						}
						if res2 != "rejected" {
							fail("same-process", "Open from the holder's own process while the database is open: "+res2)
						}
					}
				}()
			}
			wg.Wait()
			res.Add("open_attempts", int64(10*cc.Gor))
			res.Add("open_rejections", int64(10*cc.Gor))
			rep, cerr := runOpener(dir, tokdir, r.U64(), 40, cc.Gor)
			res.Add("child_processes", 1)
			if cerr != nil {
				fail("child", cerr.Error())
				return res
			}
			addRep(rep)
			if rep.Successes > 0 {
				fail("two-holders", fmt.Sprintf("%d Open attempts of another process succeeded while a holder had the directory open", rep.Successes))
			}
			for _, e := range rep.Other {
				fail("reject-error", "a rejected Open returned something other than the directory-in-use error: "+e)
				break
			}
			after := fingerprint(dir)
			res.Add("fingerprint_bursts", 1)
			if before != after {
				fail("touched", "rejected Opens changed the directory: before "+before+" after "+after)
			}
			if res.Verdict == "violated" {
				break
			}
		}
		db.Close()
		res.Nontrivial = true
	case "release":
		db, err := kv.Open(cfg.Options(dir))
		if err != nil {
			fail("open", err.Error())
			return res
		}
		for i := 0; i < 10; i++ {
			db.Put([]byte(fmt.Sprintf("k%d", i)), core.FillValue(uint64(i+1), 50))
		}
		db.Close()
		data := filepath.Join(dir, "000000000.data")
		orig, _ := os.ReadFile(data)
		for _, cause := range []string{"non-numeric-name", "corrupt-first-chunk", "data-file-is-directory", "truncated-mid-file", "corrupt-hint-in-finished-merge"} {
			undo := func() {}
			switch cause {
			case "non-numeric-name":
				p := filepath.Join(dir, "abc.data")
				os.WriteFile(p, []byte("x"), 0644)
				undo = func() { os.Remove(p) }
			case "corrupt-first-chunk":
				b := append([]byte{}, orig...)
				b[2] ^= 0xff
				os.WriteFile(data, b, 0644)
				undo = func() { os.WriteFile(data, orig, 0644) }
			case "data-file-is-directory":
				p := filepath.Join(dir, "000000007.data")
				os.Mkdir(p, 0755)
				undo = func() { os.Remove(p) }
			case "corrupt-hint-in-finished-merge":
				// a finished, not yet adopted merge whose hint file is damaged: the adopting Open
				// fails while loading the hint, after the lock was taken and files were opened
				os.WriteFile(data, orig, 0644)
				d0, err := kv.Open(cfg.Options(dir))
				if err != nil {
					continue
				}
				for i := 0; i < 40; i++ {
					d0.Put([]byte(fmt.Sprintf("m%d", i%7)), core.FillValue(uint64(i+1), 300))
				}
				merr := d0.Merge()
				d0.Close()
				hint := filepath.Join(dir+"-merge", "000000000.hint")
				hb, herr := os.ReadFile(hint)
				if merr != nil || herr != nil || len(hb) < 10 {
					continue
				}
				hb[len(hb)/2] ^= 0x55
				os.WriteFile(hint, hb, 0644)
				orig, _ = os.ReadFile(data)
				undo = func() {}
			case "truncated-mid-file":
				p := filepath.Join(dir, "000000001.data")
				os.WriteFile(p, []byte("y"), 0644) // newer file exists, so file 0 is not the newest
				os.WriteFile(data, orig[:len(orig)-3], 0644)
				undo = func() { os.Remove(p); os.WriteFile(data, orig, 0644) }
			}
			var ferr error
			pv, _ := core.Safe(func() {
				var d2 *kv.DB
				d2, ferr = kv.Open(cfg.Options(dir))
				if ferr == nil {
					d2.Close()
				}
			})
			undo()
			if pv != nil {
				fail("panic", fmt.Sprintf("Open on a directory with %s panicked: %v", cause, pv))
				break
			}
			if ferr == nil {
				res.Add("failed_open_did_not_fail", 1)
				continue
			}
			res.Add("open_attempts", 1)
			// same process
			d3, err := kv.Open(cfg.Options(dir))
			if err != nil {
				fail("not-released", fmt.Sprintf("after an Open that failed (%s: %v) and removal of the cause, Open from the same process fails: %v", cause, ferr, err))
				break
			}
			d3.Close()
			// another process
			rep, cerr := runOpener(dir, tokdir, r.U64(), 1, 1)
			res.Add("child_processes", 1)
			if cerr != nil || rep.Successes != 1 {
				fail("not-released", fmt.Sprintf("after a failed Open (%s) a child process cannot open the directory: %v %+v", cause, cerr, rep))
				break
			}
			addRep(rep)
			res.Add("release_checks", 1)
			res.SetAdd("failed_open_causes", cause+": "+ferr.Error())
		}
		res.Nontrivial = true
	case "closing":
		// Close is still a holder until it has let go of every file: at every file-level close
		// event inside Close (hook), an Open of the same directory must still be rejected
		ccfg := cfg
		ccfg.FileIO = byte(c.Index % 2)
		ccfg.DataFileSize = 4 << 10
		db, err := kv.Open(ccfg.Options(dir))
		if err != nil {
			fail("open", err.Error())
			return res
		}
		for i := 0; i < 60; i++ {
			db.Put([]byte(fmt.Sprintf("k%d", i)), core.FillValue(uint64(i+1), 700))
		}
		h := &closingProbe{dir: dir, cfg: ccfg}
		old := vhook.Set(h)
		cerr := db.Close()
		vhook.Set(old)
		res.Add("open_attempts", int64(h.attempts))
		res.Add("open_rejections", int64(h.rejected))
		res.Add("opens_during_close", int64(h.attempts))
		if cerr != nil {
			fail("close", "Close failed: "+cerr.Error())
		}
		if h.succeeded > 0 {
			fail("two-holders", fmt.Sprintf("%d of %d Open attempts made while Close was still closing the data files succeeded (first at %s): the lock was released before the holder had let go of the directory", h.succeeded, h.attempts, h.firstAt))
		}
		if h.other != "" {
			fail("reject-error", "Open during Close returned "+h.other)
		}
		d2, err := kv.Open(ccfg.Options(dir))
		if err != nil {
			fail("reopen", "the directory cannot be opened after Close: "+err.Error())
		} else {
			for i := 0; i < 60; i++ {
				if v, err := d2.Get([]byte(fmt.Sprintf("k%d", i))); err != nil || len(v) != 700 {
					fail("lost-write", fmt.Sprintf("key k%d not readable after Close/Open: %v", i, err))
					break
				}
			}
			d2.Close()
		}
		res.Add("closing_checks", 1)
		res.Nontrivial = h.attempts > 3
	case "fail-race":
		// on a directory that has no lock file yet, an Open that is bound to fail AFTER it took
		// the lock (unsupported I/O type) races with valid Opens from other goroutines; every
		// successful opener counts itself in and out: more than one holder at a time, ever,
		// is a violation. 600..1000 fresh directories per case.
		trials := 600 + c.Index%400
		var holders, maxHolders atomic.Int64
		nSucc, nFailBad := 0, 0
		for t := 0; t < trials && res.Verdict != "violated"; t++ {
			tdir := filepath.Join(dir, fmt.Sprintf("t%04d", t))
			if t%2 == 0 {
				os.MkdirAll(tdir, 0755) // existing but empty / not existing at all
			}
			var wg sync.WaitGroup
			bad := cfg
			bad.FileIO = 99
			var badErr error
			wg.Add(1)
			go func() {
				defer wg.Done()
				core.Safe(func() {
					var d *kv.DB
					d, badErr = kv.Open(bad.Options(tdir))
					if badErr == nil {
						d.Close()
					}
				})
			}()
			succ := make([]int, 3)
			for g := 0; g < 3; g++ {
				wg.Add(1)
				go func(g int) {
					defer wg.Done()
					for a := 0; a < 6; a++ {
						var d *kv.DB
						var err error
						core.Safe(func() { d, err = kv.Open(cfg.Options(tdir)) })
						if err != nil || d == nil {
							runtime.Gosched()
							continue
						}
						n := holders.Add(1)
						for {
							m := maxHolders.Load()
							if n <= m || maxHolders.CompareAndSwap(m, n) {
								break
							}
						}
						succ[g]++
						runtime.Gosched()
						holders.Add(-1)
						d.Close()
					}
				}(g)
			}
			wg.Wait()
			for _, n := range succ {
				nSucc += n
			}
			if badErr != nil {
				nFailBad++
			}
			if maxHolders.Load() > 1 {
				fail("two-holders", fmt.Sprintf("trial %d on a fresh directory: %d goroutines held an open database on the directory at the same time while an Open with an unsupported I/O type was failing next to them", t, maxHolders.Load()))
			}
		}
		res.Add("fail_race_trials", int64(trials))
		res.Add("open_successes", int64(nSucc))
		res.Add("opens_failing_after_the_lock_was_taken", int64(nFailBad))
		res.Nontrivial = nSucc > trials && nFailBad > trials/2
	case "close-in-merge":
		// Close is called while a Merge of the same handle is in its rewrite phase (no lock
		// held). Whatever Close answers: if another Open of the directory then succeeds, the
		// first handle must be dead - a handle that still accepts writes next to a new holder
		// means two owners. Standard I/O only (the mapped back-end may fault on files that
		// were closed under the merge, which is a matter of C09's exclusions, not of the lock).
		ccfg := cfg
		ccfg.FileIO = 0
		ccfg.DataFileSize = 4 << 10
		a, err := kv.Open(ccfg.Options(dir))
		if err != nil {
			fail("open", err.Error())
			return res
		}
		for i := 0; i < 80; i++ {
			a.Put([]byte(fmt.Sprintf("k%d", i%50)), core.FillValue(uint64(i+1), 500))
		}
		at := []string{"merge.afterRotate", "merge.record", "merge.beforeMarker"}[c.Index/9%3]
		fired := false
		var closeErr, openErr, putErr error
		var second *kv.DB
		old := vhook.Set(pointFunc(func(name string) {
			if fired || name != at {
				return
			}
			fired = true
			closeErr = a.Close()
			second, openErr = kv.Open(ccfg.Options(dir))
			putErr = a.Put([]byte("written-through-the-first-handle"), []byte("x"))
			if second != nil {
				second.Close()
			}
		}))
		var merr error
		pv, _ := core.Safe(func() { merr = a.Merge() })
		vhook.Set(old)
		res.Add("closes_during_merge", 1)
		res.SetAdd("close_during_merge_outcome", fmt.Sprintf("at %s: Close->%v Open->%v Put->%v Merge->%v panic=%v", at, closeErr, openErr, putErr, merr, pv != nil))
		if !fired {
			res.Verdict, res.Note = "inconclusive", "hook point "+at+" was not reached"
			return res
		}
		if openErr == nil && putErr == nil {
			fail("two-holders", fmt.Sprintf("Close called during Merge (at %s) returned %v; a second Open of the directory then succeeded while the first handle still accepted a Put: two owners", at, closeErr))
		}
		if openErr != nil && !errors.Is(openErr, kv.ErrDatabaseIsUsing) && closeErr != nil {
			fail("reject-error", "Open after a refused Close returned "+openErr.Error())
		}
		core.Safe(func() { a.Close() })
		d2, err := kv.Open(ccfg.Options(dir))
		if err != nil {
			fail("reopen", "the directory cannot be opened after Close during Merge: "+err.Error())
		} else {
			for i := 0; i < 50; i++ {
				if v, err := d2.Get([]byte(fmt.Sprintf("k%d", i))); err != nil || len(v) != 500 {
					fail("lost-write", fmt.Sprintf("key k%d not readable after Close during Merge + Open: %v", i, err))
					break
				}
			}
			d2.Close()
		}
		res.Nontrivial = true
	case "stale":
		a, err := kv.Open(cfg.Options(dir))
		if err != nil {
			fail("open", err.Error())
			return res
		}
		a.Put([]byte("a"), []byte("1"))
		a.Close()
		b, err := kv.Open(cfg.Options(dir))
		if err != nil {
			fail("open", "Open after Close failed: "+err.Error())
			return res
		}
		pv, _ := core.Safe(func() { a.Close() }) // stale handle closed again
		_ = pv
		cdb, err := kv.Open(cfg.Options(dir))
		res.Add("open_attempts", 1)
		if err == nil {
			cdb.Close()
			fail("two-holders", "closing an already closed handle released the directory held by another open database: a third Open succeeded")
		} else if !errors.Is(err, kv.ErrDatabaseIsUsing) {
			fail("reject-error", "rejected Open returned "+err.Error())
		} else {
			res.Add("open_rejections", 1)
		}
		rep, cerr := runOpener(dir, tokdir, r.U64(), 5, 1)
		res.Add("child_processes", 1)
		if cerr == nil {
			addRep(rep)
			if rep.Successes > 0 {
				fail("two-holders", "after a stale Close a child process could open the directory held by another database")
			}
		}
		b.Close()
		res.Add("stale_close_checks", 1)
		res.Nontrivial = true
	}
	res.Hash = core.HashBytes([]byte(fmt.Sprint(cc, res.Counters["open_successes"], res.Counters["open_rejections"])))
	if c.Index < 4 {
		res.Sample = map[string]any{"case": cc, "attempts": res.Counters["open_attempts"], "successes": res.Counters["open_successes"], "rejections": res.Counters["open_rejections"]}
	}
	return res
}

// closingProbe tries to open the directory at every file-level close event of a running Close.
type closingProbe struct {
	dir       string
	cfg       core.Config
	busy      bool
	attempts  int
	rejected  int
	succeeded int
	other     string
	firstAt   string
}

func (p *closingProbe) FS(kind, a, b string) {}
func (p *closingProbe) Point(name string)    {}
func (p *closingProbe) IO(kind, path string, off int64, n int, buf []byte) {
	if p.busy || kind != "close" || filepath.Dir(path) != p.dir || p.attempts >= 12 {
		return
	}
	p.busy = true
	defer func() { p.busy = false }()
	p.attempts++
	db, err := kv.Open(p.cfg.Options(p.dir))
	switch {
	case err == nil:
		p.succeeded++
		if p.firstAt == "" {
			p.firstAt = "close of " + filepath.Base(path)
		}
		db.Close()
	case errors.Is(err, kv.ErrDatabaseIsUsing):
		p.rejected++
	default:
		p.other = err.Error()
	}
}

// pointFunc adapts a function to the hook interface (named points only).
type pointFunc func(name string)

func (pointFunc) FS(kind, a, b string)                               {}
func (pointFunc) IO(kind, path string, off int64, n int, buf []byte) {}
func (f pointFunc) Point(name string)                                { f(name) }
