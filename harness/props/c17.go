package props

import (
	"errors"
	"fmt"
	"path/filepath"
	"runtime"
	"sync/atomic"

	kv "github.com/XiXi-2024/xixi-kv"
	"github.com/XiXi-2024/xixi-kv/vhook"
	"verif/harness/core"
	"verif/harness/mon"
	"verif/harness/vfmt"
)

// C17 — Stat and space accounting are exact; files respect the size limit.
type c17 struct{}

func init() { core.Register(c17{}) }

func (c17) ID() string    { return "C17" }
func (c17) Level() string { return "exploration" }
func (c17) Rule() string {
	return "cases = generated histories (overwrite/delete/batch mixes, batches overflowing the limit, put+delete of one key inside a batch, deletes of absent keys, oversized single records, merges + adopting restarts, several restarts; DataFileMergeRatio 0) ; after EVERY step Stat() is compared with values recomputed independently: KeyNum vs model size, DataFileNum vs number of *.data files, 0 <= ReclaimableSize <= DiskSize, DiskSize-ReclaimableSize vs the bytes (chunk headers + payload) of the live record of every live key obtained by decoding all data files with vfmt and applying the recovery rules (latest record wins, tombstones delete, batch records count only with their sealing record); every data file whose logical size exceeds DataFileSize must hold exactly one record (plus a batch sealing record); Merge must never be refused with ErrNoEnoughSpaceForMerge/ErrMergeRatioUnreached; every fourth case additionally restarts from a process-death image taken inside a large batch (records without their sealing record on disk) and compares the recovered counters the same way. Non-trivial: history with >=1 batch, >=1 restart, >=1 merge and >=50 Stat comparisons; distinct = hash of (config, op list) In every fourth case a second goroutine calls Stat in a loop while the writer executes puts, deletes and batches that change the key count: each answer must equal, as a whole tuple, the counters of one of the quiescent states between the start and the return of that call (the writer's own Stat between two operations)."
}
func (c17) Assumptions() []string {
	return []string{"vfmt decodes the files independently of the engine's reader (cross-validated by C11)", "for open mmap files the logical size is taken from the hooked write events (the physical file is pre-extended)"}
}
func (c17) Required() []string {
	return []string{"stat_comparisons", "files_over_limit_checked", "restarts", "ops_merge", "ops_batch", "stat_after_restart", "concurrent_stat_calls_overlapping_a_write"}
}

func (c17) Cases(tier string, seed uint64) []core.Case {
	n := 200
	if tier == "thorough" {
		n = 15000
	}
	r := core.NewRng(core.Mix(seed, 0xC17))
	var out []core.Case
	for i := 0; i < n; i++ {
		cfg := core.RandConfig(r)
		cfg.IndexType = core.IndexTypes[i%3]
		cfg.FileIO = byte((i / 3) % 2)
		cfg.DataFileSize = []int64{4 << 10, 8 << 10, 40 << 10, 64 << 10}[r.Intn(4)]
		out = append(out, core.Case{Index: i, ID: fmt.Sprintf("c17-%05d", i), Seed: r.U64(), Data: seqCase{Cfg: cfg, NOps: r.Range(50, 220), NKeys: r.Range(3, 9)}})
	}
	return out
}

type liveRec struct {
	size uint32
	file string
}

// scanDir recomputes the live records of dir from the raw bytes.
// sizes: logical size per path (for open mmap files), nil = physical.
func scanDir(dir string, logical map[string]mon.FileState) (live map[string]liveRec, perFile map[string][]vfmt.Rec, fileSize map[string]int64, err error) {
	live = map[string]liveRec{}
	perFile = map[string][]vfmt.Rec{}
	fileSize = map[string]int64{}
	pending := map[uint64][]vfmt.Rec{}
	pendingFile := map[uint64][]string{}
	for _, name := range core.DataFiles(dir) {
		p := filepath.Join(dir, name)
		n := int64(-1)
		if fs, ok := logical[p]; ok {
			n = fs.Written
		}
		b, rerr := mon.ReadLogical(p, n)
		if rerr != nil {
			return nil, nil, nil, rerr
		}
		fileSize[name] = int64(len(b))
		recs, _, serr := vfmt.Scan(b)
		if serr != nil {
			return nil, nil, nil, fmt.Errorf("%s: %v", name, serr)
		}
		perFile[name] = recs
		for _, rc := range recs {
			apply := func(rc vfmt.Rec, fname string) {
				if rc.Type == vfmt.RecDeleted {
					delete(live, string(rc.Key))
				} else {
					live[string(rc.Key)] = liveRec{size: rc.Size, file: fname}
				}
			}
			switch {
			case rc.BatchID == 0:
				apply(rc, name)
			case rc.Type == vfmt.RecBatchFin:
				for i, pr := range pending[rc.BatchID] {
					apply(pr, pendingFile[rc.BatchID][i])
				}
				delete(pending, rc.BatchID)
				delete(pendingFile, rc.BatchID)
			default:
				pending[rc.BatchID] = append(pending[rc.BatchID], rc)
				pendingFile[rc.BatchID] = append(pendingFile[rc.BatchID], name)
			}
		}
	}
	return
}

func (c17) Run(c core.Case, w *core.Worker) core.Result {
	sc := c.Data.(seqCase)
	res := core.Result{}
	dir := w.Dir("db")
	io := mon.NewIOLog()
	io.Track = dir
	defer io.Install()()
	s := core.NewSession(dir, sc.Cfg, &res)
	s.Spell = c.Index%2 == 1 // every Open spells DirPath differently
	s.IO = io
	r := core.NewRng(c.Seed)
	keys := core.GenKeys(r, sc.NKeys)
	g := &core.Gen{R: r, Keys: keys, Cfg: sc.Cfg, EndOff: io.ActiveEnd, MaxVal: 70 << 10}
	violated := false
	feat := func(kind string) map[string]string {
		return map[string]string{"class": "accounting", "kind": kind, "io": fmt.Sprint(sc.Cfg.FileIO)}
	}
	fail := func(kind, msg string) {
		if violated {
			return
		}
		violated = true
		res.Violate(fmt.Sprintf("step %d: %s", s.Step, msg), feat(kind), map[string]any{"config": sc.Cfg, "ops_tail": lastN(s.Log, 30)})
	}
	checkStat := func(when string) {
		if s.DB == nil || s.Dead || violated {
			return
		}
		st := s.DB.Stat()
		res.Add("stat_comparisons", 1)
		live, perFile, fsize, err := scanDir(dir, io.Files())
		if err != nil {
			fail("scan", "independent scan of the data directory failed: "+err.Error())
			return
		}
		if st.KeyNum != len(s.M.M) {
			fail("keynum", fmt.Sprintf("%s: Stat.KeyNum=%d, model has %d keys", when, st.KeyNum, len(s.M.M)))
			return
		}
		if len(live) != len(s.M.M) {
			fail("scan-vs-model", fmt.Sprintf("%s: on-disk scan yields %d live keys, model has %d", when, len(live), len(s.M.M)))
			return
		}
		if st.DataFileNum != len(fsize) {
			fail("filenum", fmt.Sprintf("%s: Stat.DataFileNum=%d, directory holds %d data files", when, st.DataFileNum, len(fsize)))
			return
		}
		if st.ReclaimableSize < 0 || st.ReclaimableSize > st.DiskSize {
			fail("range", fmt.Sprintf("%s: ReclaimableSize=%d outside [0, DiskSize=%d]", when, st.ReclaimableSize, st.DiskSize))
			return
		}
		var liveBytes int64
		for _, l := range live {
			liveBytes += int64(l.size)
		}
		if st.DiskSize-st.ReclaimableSize != liveBytes {
			fail("live-bytes", fmt.Sprintf("%s: DiskSize(%d) - ReclaimableSize(%d) = %d, live records occupy %d bytes (drift %d)", when, st.DiskSize, st.ReclaimableSize, st.DiskSize-st.ReclaimableSize, liveBytes, st.DiskSize-st.ReclaimableSize-liveBytes))
			return
		}
		for name, sz := range fsize {
			if sz > sc.Cfg.DataFileSize {
				res.Add("files_over_limit_checked", 1)
				recs := perFile[name]
				ok := len(recs) == 1 || (len(recs) == 2 && recs[1].Type == vfmt.RecBatchFin)
				if !ok {
					fail("file-limit", fmt.Sprintf("%s: %s is %d bytes (limit %d) and holds %d records", when, name, sz, sc.Cfg.DataFileSize, len(recs)))
					return
				}
			}
		}
		res.Add("files_checked", int64(len(fsize)))
		// the caller owns the struct Stat returned: what it writes there must not come back
		st.KeyNum, st.ReclaimableSize = -12345, -1
		if res.Counters["stat_comparisons"]%2 == 0 {
			st.DiskSize, st.DataFileNum = -2, -3
		}
		res.Add("stat_results_overwritten_by_the_caller", 1)
	}
	s.AfterOp = func(i int, op core.Op) {
		when := "after " + op.Kind
		checkStat(when)
		if op.Kind == "restart" {
			res.Add("stat_after_restart", 1)
		}
	}
	if !s.Open() {
		return res
	}
	for i := 0; i < sc.NOps && !s.Dead && !violated; i++ {
		op := g.Next()
		switch r.Intn(14) {
		case 0:
			// put + delete of an absent key inside one batch, delete of absent keys
			k := []byte(fmt.Sprintf("tmp%d", i))
			op = core.Op{Kind: "batch", Sub: []core.Op{{Kind: "put", Key: k, VLen: r.Range(0, 200), VSeed: r.U64()}, {Kind: "del", Key: k}, {Kind: "del", Key: g.Key()}}}
		case 1:
			op = bigBatch(r, g, sc.Cfg.DataFileSize)
		}
		if op.Kind == "merge" {
			// a refused merge is always suspicious with ratio 0
			var merr error
			core.Safe(func() { merr = nil })
			_ = merr
		}
		if !s.Exec(op) {
			break
		}
		if op.Kind == "merge" {
			if res.Sets != nil {
				for _, e := range res.Sets["merge_error_kinds"] {
					if e == kv.ErrNoEnoughSpaceForMerge.Error() || e == kv.ErrMergeRatioUnreached.Error() {
						fail("merge-refused", "Merge refused: "+e)
					}
				}
			}
			if r.Chance(1, 2) && !s.Dead {
				s.Exec(core.Op{Kind: "restart"})
			}
		}
	}
	if c.Index%4 == 1 && !s.Dead && !violated && s.DB != nil {
		// Stat from a second goroutine WHILE writers run: every answer must be, as a whole, the
		// counters of one state that existed between the start and the return of that call
		// (writers change all counters inside one critical section; an open batch holds it
		// until Commit). The truth for each quiescent state is Stat taken by the writer
		// itself between two operations - exactly what the sequential part above validates.
		db := s.DB
		states := []kv.Stat{*db.Stat()}
		var pub atomic.Int64
		pub.Store(1)
		type obsT struct {
			a, b int64
			st   kv.Stat
		}
		var observed []obsT
		var opanic any
		stop, done := make(chan struct{}), make(chan struct{})
		go func() {
			defer close(done)
			defer func() { opanic = recover() }()
			for len(observed) < 200000 {
				select {
				case <-stop:
					return
				default:
				}
				a := pub.Load()
				st := db.Stat()
				b := pub.Load()
				observed = append(observed, obsT{a, b, *st})
				runtime.Gosched()
			}
		}()
		prevAfter := s.AfterOp
		s.AfterOp = func(i int, op core.Op) {
			states = append(states, *db.Stat())
			pub.Store(int64(len(states)))
		}
		for i := r.Range(25, 60); i > 0 && !s.Dead; i-- {
			var op core.Op
			switch c := r.Intn(10); {
			case c < 3:
				// a batch that changes the number of keys: fresh keys in, some existing keys out
				op = core.Op{Kind: "batch"}
				for j := r.Range(1, 12); j > 0; j-- {
					op.Sub = append(op.Sub, core.Op{Kind: "put", Key: []byte(fmt.Sprintf("cs%d.%d", i, j)), VLen: r.Range(0, 400), VSeed: r.U64()})
				}
				op.Sub = append(op.Sub, core.Op{Kind: "del", Key: g.Key()})
			case c < 4:
				op = bigBatch(r, g, sc.Cfg.DataFileSize)
			case c < 7:
				op = core.Op{Kind: "put", Key: []byte(fmt.Sprintf("cs%d", r.Intn(40))), VLen: r.Range(0, 3000), VSeed: r.U64()}
			case c < 9:
				op = core.Op{Kind: "del", Key: []byte(fmt.Sprintf("cs%d", r.Intn(40)))}
			default:
				op = core.Op{Kind: "put", Key: g.Key(), VLen: r.Range(0, 40000), VSeed: r.U64()}
			}
			s.Exec(op)
		}
		close(stop)
		<-done
		s.AfterOp = prevAfter
		if opanic != nil {
			fail("panic", fmt.Sprintf("Stat from a second goroutine panicked: %v", opanic))
		}
		nOverlap := 0
		for _, o := range observed {
			lo, hi := o.a-1, o.b
			if hi > int64(len(states))-1 {
				hi = int64(len(states)) - 1
			}
			if o.b > o.a {
				nOverlap++
			}
			ok := false
			for j := lo; j <= hi && !ok; j++ {
				ok = states[j] == o.st
			}
			if !ok && !violated {
				fail("concurrent-stat", fmt.Sprintf("Stat called from a second goroutine returned %+v, which is none of the %d states that existed between its start and its return (first %+v, last %+v)", o.st, hi-lo+1, states[lo], states[hi]))
			}
		}
		res.Add("concurrent_stat_calls", int64(len(observed)))
		res.Add("concurrent_stat_calls_overlapping_a_write", int64(nOverlap))
		checkStat("after the concurrent phase")
	}
	if c.Index%4 == 2 && !s.Dead && !violated {
		// restart after a process death inside a large batch: the image keeps batch records
		// without their sealing record; the recovered counters must still be exact
		img := w.Dir("img")
		k := r.Range(1, 3)
		n := 0
		taken := false
		prev := io.OnEvent
		io.OnEvent = func(ev mon.Event, buf []byte) {
			if ev.Kind == "io.writeDone" && !taken {
				n++
				if n == k {
					taken = mon.CopyTree(dir, img) == nil
				}
			}
		}
		s.Exec(bigBatch(r, g, sc.Cfg.DataFileSize))
		io.OnEvent = prev
		if taken && !s.Dead {
			old := vhook.Set(nil)
			func() {
				defer vhook.Set(old)
				idb, err := kv.Open(sc.Cfg.Options(img))
				if err != nil {
					fail("crash-open", "image taken inside a batch does not open: "+err.Error())
					return
				}
				st := idb.Stat()
				if err := idb.Close(); err != nil {
					fail("crash-close", err.Error())
					return
				}
				live, _, fsize, serr := scanDir(img, nil)
				if serr != nil {
					fail("scan", "scan of the recovered image failed: "+serr.Error())
					return
				}
				var liveBytes int64
				for _, l := range live {
					liveBytes += int64(l.size)
				}
				res.Add("stat_after_crash_recovery", 1)
				if st.KeyNum != len(live) || st.DataFileNum != len(fsize) || st.ReclaimableSize < 0 || st.ReclaimableSize > st.DiskSize || st.DiskSize-st.ReclaimableSize != liveBytes {
					fail("crash-accounting", fmt.Sprintf("after recovery from a process death inside a batch: KeyNum=%d (scan %d) DataFileNum=%d (dir %d) DiskSize(%d)-ReclaimableSize(%d)=%d, live records occupy %d bytes",
						st.KeyNum, len(live), st.DataFileNum, len(fsize), st.DiskSize, st.ReclaimableSize, st.DiskSize-st.ReclaimableSize, liveBytes))
				}
			}()
		}
	}
	if !s.Dead && !violated {
		s.Exec(core.Op{Kind: "restart"})
	}
	if s.DB != nil {
		s.Close()
	}
	_ = errors.New
	res.Nontrivial = res.Counters["ops_batch"] > 0 && res.Counters["restarts"] > 0 && res.Counters["ops_merge"] > 0 && res.Counters["stat_comparisons"] >= 50
	res.Hash = core.HashBytes([]byte(sc.Cfg.String()), []byte(fmt.Sprint(s.Log)))
	if c.Index < 2 {
		res.Sample = map[string]any{"config": sc.Cfg, "ops": firstN(s.Log, 30), "total_ops": len(s.Log)}
	}
	return res
}
