package props

import (
	"fmt"
	"os"

	kv "github.com/XiXi-2024/xixi-kv"
	"verif/harness/core"
	"verif/harness/mon"
	"verif/harness/vfmt"
)

// C01 — reads return the latest acknowledged write: reference map in lock-step.
type c01 struct{}

func init() { core.Register(c01{}) }

func (c01) ID() string    { return "C01" }
func (c01) Level() string { return "exploration" }
func (c01) Rule() string {
	return "cases = seed-determined (configuration, op sequence) pairs from the boundary-aware generator over 3..12 keys; every mutating step is followed by a Get of the touched keys and every 8th step by a full dump (ListKeys, Get*, Fold, Stat.KeyNum) compared with the reference map; one extra case writes > 512 MiB into a single memory-mapped data file (6..9 MiB values) so that the mapping has to be re-established beyond the first 512 MiB unit, then dumps, takes a Backup (which un-maps and shrinks the file), reads the record at offset 0, dumps again and restarts; one case grows a single standard-I/O data file beyond 4 GiB (3..5 MiB values), dumps, restarts, appends three bytes of a torn chunk header beyond the 4 GiB offset, recovers, dumps, writes and restarts again; a family of cases has the name of the next data file occupied by a directory, so that every Put/Delete that needs a rotation is refused: a refused call must leave the mapping as it was (most recent SUCCESSFUL Put), live, after the obstacle is removed and after a restart; a further family populates 4 Ki..280 K live keys (sizes at and around powers of two and round decimal numbers) with tiny values and compares a full dump after the population, after n/8 overwrites and deletes, after one batch of 3000 entries, after a restart, after a Merge, after the restart that adopts it through the hint file and after writes on top; a case is non-trivial when it performed >=1 rotation or wrote >=1 multi-block record, and >=1 overwrite or delete of an existing key; distinct = hash of (config, executed op list)"
}
func (c01) Assumptions() []string {
	return []string{"reference map model is the specification of Get/ListKeys/Fold", "values compared with bytes.Equal (nil == empty)", "sequential use only (concurrency is C08/C09)"}
}
func (c01) Required() []string {
	return []string{"compared_calls", "io.write", "rotations", "boundary_records", "cases_large_population"}
}

type seqCase struct {
	Cfg   core.Config
	NOps  int
	NKeys int
	Flag  int // property-specific
}

func (c01) Cases(tier string, seed uint64) []core.Case {
	n := 480
	if tier == "thorough" {
		n = 48000
	}
	r := core.NewRng(core.Mix(seed, 0xC01))
	cfgs := core.CoverConfigs(r, n)
	out := make([]core.Case, n)
	for i := range out {
		cfg := cfgs[i]
		if i%4 == 3 {
			cfg = core.RandConfig(r)
		}
		out[i] = core.Case{Index: i, ID: fmt.Sprintf("c01-%05d", i), Seed: r.U64(),
			Data: seqCase{Cfg: cfg, NOps: r.Range(60, 400), NKeys: r.Range(3, 12)}}
	}
	// one case whose single mmap data file grows beyond the 512 MiB mapping unit (remap path)
	out = append(out, core.Case{Index: n, ID: "c01-mmap-remap", Seed: r.U64(),
		Data: seqCase{Cfg: core.Config{IndexType: 3, ShardNum: 4, FileIO: 1, DataFileSize: 700 << 20}, NOps: -1}})
	// large populations (sizes at and around powers of two and round numbers, where size-gated
	// paths switch on): NOps = -(number of keys)
	nl := 6
	if tier == "thorough" {
		nl = 240
	}
	bases := []int{1 << 16, 100000, 1 << 17, 1 << 15, 1 << 14, 50000, 1 << 18, 1 << 12}
	for j := 0; j < nl; j++ {
		nk := bases[j%len(bases)]
		switch (j / len(bases)) % 4 {
		case 0:
			nk += r.Range(0, 3)
		case 1:
			nk += r.Range(4, 9000)
		case 2:
			nk -= r.Range(1, 3)
		default:
			nk = r.Range(1<<12, 280000)
		}
		cfg := core.Config{IndexType: core.IndexTypes[j%3], ShardNum: []int{16, 4, 1, 64, 1024, 3}[(j/3)%6], FileIO: byte((j / 2) % 2), DataFileSize: []int64{1 << 20, 256 << 10, 4 << 20}[r.Intn(3)]}
		out = append(out, core.Case{Index: len(out), ID: fmt.Sprintf("c01-large-%04d", j), Seed: r.U64(), Data: seqCase{Cfg: cfg, NOps: -nk}})
	}
	// one case whose single standard-I/O data file grows beyond 4 GiB (offsets that no longer
	// fit 32 bits), is restarted, and then recovered from a torn tail that starts beyond 4 GiB
	out = append(out, core.Case{Index: len(out), ID: "c01-beyond-4gib", Seed: r.U64(),
		Data: seqCase{Cfg: core.Config{IndexType: 1, ShardNum: 4, FileIO: 0, DataFileSize: 6 << 30}, NOps: -3}})
	// writes refused by the environment: the name of the next data file is taken by a directory
	no := 12
	if tier == "thorough" {
		no = 1200
	}
	for j := 0; j < no; j++ {
		cfg := core.Config{IndexType: core.IndexTypes[j%3], ShardNum: []int{1, 4, 16}[r.Intn(3)], FileIO: byte((j / 3) % 2), DataFileSize: []int64{4 << 10, 8 << 10, 16 << 10}[r.Intn(3)]}
		out = append(out, core.Case{Index: len(out), ID: fmt.Sprintf("c01-refused-%04d", j), Seed: r.U64(), Data: seqCase{Cfg: cfg, NOps: -2, NKeys: r.Range(3, 8)}})
	}
	return out
}

// runBeyond4GiB: every position the engine handles is (32-bit block id, 32-bit offset in the
// block); the byte offset in the file needs 64 bits once a file passes 4 GiB.
func runBeyond4GiB(c core.Case, sc seqCase, w *core.Worker) core.Result {
	res := core.Result{}
	dir := w.Dir("huge")
	s := core.NewSession(dir, sc.Cfg, &res)
	s.NoStates = true
	if !s.Open() {
		return res
	}
	r := core.NewRng(c.Seed)
	s.Exec(core.Op{Kind: "put", Key: []byte("first"), VLen: 100, VSeed: r.U64() | 1})
	var written int64
	for i := 0; written < 4400<<20 && !s.Dead; i++ {
		n := r.Range(3<<20, 5<<20)
		s.Exec(core.Op{Kind: "put", Key: []byte(fmt.Sprintf("huge%02d", i%24)), VLen: n, VSeed: r.U64() | 1})
		written += int64(n)
	}
	res.Add("bytes_written_in_one_file", written)
	step := func(what string, f func()) {
		if s.Dead {
			return
		}
		f()
		if !s.Dead {
			s.CheckDump(what)
		}
	}
	step("with the active file beyond 4 GiB", func() {})
	step("after a clean restart of a > 4 GiB file", func() { s.Exec(core.Op{Kind: "restart"}) })
	step("after recovery from a torn tail that starts beyond 4 GiB", func() {
		if !s.Close() {
			return
		}
		files := core.DataFiles(dir)
		f, err := os.OpenFile(dir+"/"+files[len(files)-1], os.O_WRONLY|os.O_APPEND, 0644)
		if err != nil {
			res.Verdict, res.Note = "inconclusive", err.Error()
			s.Dead = true
			return
		}
		f.Write([]byte{0x12, 0x34, 0x56}) // three bytes of a chunk header: a record torn by a crash
		f.Close()
		s.Open()
		res.Add("torn_tails_beyond_4gib", 1)
	})
	step("after writing to the recovered file and restarting", func() {
		s.Exec(core.Op{Kind: "put", Key: []byte("after-recovery"), VLen: 5000, VSeed: r.U64() | 1})
		s.Exec(core.Op{Kind: "restart"})
	})
	if s.DB != nil {
		s.Close()
	}
	res.Add("rotations", 1)
	res.Add("boundary_records", 1)
	res.Nontrivial = written > 4<<30 && res.Counters["torn_tails_beyond_4gib"] > 0
	res.Hash = core.HashBytes([]byte("beyond-4gib"))
	res.Sample = map[string]any{"kind": "beyond-4gib", "bytes_written_in_one_file": written, "ops": len(s.Log)}
	return res
}

// runRefused: "the most recent SUCCESSFUL Put": while the next data file cannot be created
// (its name is occupied by a directory) every Put/Delete that needs a rotation returns an
// error; such a call must leave the mapping exactly as it was - in the live database, and,
// once the obstacle is gone, after further writes and after a restart.
func runRefused(c core.Case, sc seqCase, w *core.Worker) core.Result {
	res := core.Result{}
	dir := w.Dir("db")
	s := core.NewSession(dir, sc.Cfg, &res)
	if !s.Open() {
		return res
	}
	r := core.NewRng(c.Seed)
	keys := core.GenKeys(r, sc.NKeys)
	op := func() core.Op {
		k := keys[r.Intn(len(keys))]
		if r.Chance(1, 3) {
			return core.Op{Kind: "del", Key: k}
		}
		return core.Op{Kind: "put", Key: k, VLen: r.Range(0, int(sc.Cfg.DataFileSize)/5), VSeed: r.U64() | 1}
	}
	for i := r.Range(5, 40); i > 0 && !s.Dead; i-- {
		s.Exec(op())
	}
	files := core.DataFiles(dir)
	if s.Dead || len(files) == 0 {
		return res
	}
	var last int
	fmt.Sscanf(files[len(files)-1], "%d.data", &last)
	obstacle := fmt.Sprintf("%s/%09d.data", dir, last+1)
	if err := os.Mkdir(obstacle, 0755); err != nil {
		res.Verdict, res.Note = "inconclusive", "cannot place the obstacle: "+err.Error()
		return res
	}
	s.MayFail = true
	s.Log = append(s.Log, "-- next data file name occupied by a directory")
	for i := r.Range(20, 50); i > 0 && !s.Dead; i-- {
		s.Exec(op())
		if i%7 == 0 && !s.Dead {
			s.Exec(core.Op{Kind: "get", Key: keys[r.Intn(len(keys))]})
		}
	}
	if !s.Dead {
		s.CheckDump("while the next data file cannot be created")
	}
	os.Remove(obstacle)
	s.MayFail = false
	s.Log = append(s.Log, "-- obstacle removed")
	for i := r.Range(3, 12); i > 0 && !s.Dead; i-- {
		s.Exec(op())
	}
	if !s.Dead {
		s.CheckDump("after the obstacle was removed")
	}
	if !s.Dead {
		s.Exec(core.Op{Kind: "restart"})
	}
	if s.DB != nil {
		s.Close()
	}
	res.Add("rotations", 1)
	res.Add("boundary_records", 1)
	res.Add("cases_with_refused_writes", 1)
	res.Nontrivial = res.Counters["failed_calls_checked_for_no_effect"] >= 3
	res.Hash = core.HashBytes([]byte(sc.Cfg.String()), []byte(fmt.Sprint(s.Log)))
	if c.Index%100 == 0 {
		res.Sample = map[string]any{"kind": "refused-writes", "config": sc.Cfg, "ops_tail": lastN(s.Log, 30)}
	}
	return res
}

// runLargePopulation: tens to hundreds of thousands of live keys with tiny values; every key
// is read back, the ordered listing compared, then overwrites, deletes, one large batch, a
// merge and two restarts (the second one through the hint file), with a full dump after each.
func runLargePopulation(c core.Case, sc seqCase, w *core.Worker) core.Result {
	res := core.Result{}
	n := -sc.NOps
	s := core.NewSession(w.Dir("large"), sc.Cfg, &res)
	s.NoStates = true
	if !s.Open() {
		return res
	}
	r := core.NewRng(c.Seed)
	key := func(i int) []byte {
		h := core.Mix(uint64(i), c.Seed)
		return []byte(fmt.Sprintf("%c%x", "pqr"[h%3], h>>20))
	}
	val := func() []byte { return core.FillValue(r.U64()|1, r.Range(0, 12)) }
	feat := map[string]string{"class": "large-population", "io": fmt.Sprint(sc.Cfg.FileIO), "index": fmt.Sprint(sc.Cfg.IndexType)}
	fail := func(msg string) {
		res.Violate(msg, feat, map[string]any{"config": sc.Cfg, "keys": n})
		s.Dead = true
	}
	put := func(k []byte) {
		v := val()
		if err := s.DB.Put(k, v); err != nil {
			fail(fmt.Sprintf("Put #%d failed: %v", len(s.M.M), err))
		}
		s.M.Put(k, v)
	}
	pv, st := core.Safe(func() {
		for i := 0; i < n && !s.Dead; i++ {
			put(key(i))
		}
	})
	if pv != nil {
		res.Violate(fmt.Sprintf("Put panicked: %v", pv), feat, st)
		return res
	}
	res.Add("large_population_keys", int64(len(s.M.M)))
	step := func(name string, f func()) {
		if s.Dead {
			return
		}
		pv, st := core.Safe(f)
		if pv != nil {
			res.Violate(fmt.Sprintf("%s panicked: %v", name, pv), feat, st)
			s.Dead, s.Panicked = true, true
			return
		}
		if !s.Dead {
			s.CheckDump("large population, after " + name)
			res.Add("large_population_dumps", 1)
		}
	}
	step("population", func() {})
	step("overwrites and deletes", func() {
		for j := 0; j < n/8 && !s.Dead; j++ {
			k := key(r.Intn(n))
			if j%3 == 2 {
				if err := s.DB.Delete(k); err != nil {
					fail("Delete failed: " + err.Error())
				}
				s.M.Delete(k)
			} else {
				put(k)
			}
		}
	})
	step("a batch of thousands of entries", func() {
		b := s.DB.NewBatch(kv.BatchOptions{})
		for j := 0; j < 3000; j++ {
			k := key(r.Intn(n + 2000))
			if j%4 == 3 {
				if err := b.Delete(k); err != nil {
					fail("Batch.Delete failed: " + err.Error())
				}
				s.M.Delete(k)
			} else {
				v := val()
				if err := b.Put(k, v); err != nil {
					fail("Batch.Put failed: " + err.Error())
				}
				s.M.Put(k, v)
			}
		}
		if err := b.Commit(); err != nil {
			fail("Commit failed: " + err.Error())
		}
	})
	step("restart", func() { s.Exec(core.Op{Kind: "restart"}) })
	step("merge", func() { s.Exec(core.Op{Kind: "merge"}) })
	step("restart adopting the merge", func() { s.Exec(core.Op{Kind: "restart"}) })
	if !s.Dead {
		for j := 0; j < 200 && !s.Dead; j++ {
			s.Exec(core.Op{Kind: "put", Key: key(r.Intn(n)), VLen: r.Range(0, 40), VSeed: r.U64() | 1})
		}
		step("writes after adoption", func() {})
	}
	if s.DB != nil {
		s.Close()
	}
	res.Add("rotations", 1)
	res.Add("boundary_records", 1)
	res.Add("cases_large_population", 1)
	res.Nontrivial = res.Counters["large_population_dumps"] >= 6
	res.Hash = core.HashBytes([]byte(fmt.Sprint("large", sc.Cfg, n, c.Seed)))
	if c.Index%50 == 0 {
		res.Sample = map[string]any{"kind": "large-population", "config": sc.Cfg, "keys": n}
	}
	return res
}

// ioObserver counts rotations, boundary-landing and multi-block records from
// the I/O event stream.
func ioObserver(io *mon.IOLog, dir string, res *core.Result) {
	io.Track = dir
	io.OnEvent = func(ev mon.Event, buf []byte) {
		res.Add(ev.Kind, 1)
		switch ev.Kind {
		case "io.open":
			if ev.Name == "created" && len(ev.Path) > 5 && ev.Path[len(ev.Path)-5:] == ".data" && dirOf(ev.Path) == dir {
				res.Add("data_files_created", 1)
				if ev.Path[len(ev.Path)-14:] != "000000000.data" {
					res.Add("rotations", 1)
				}
			}
		case "io.write":
			if dirOf(ev.Path) != dir {
				return
			}
			end := ev.Off + int64(ev.N)
			inb := end % vfmt.Block
			if inb <= 8 || inb >= vfmt.Block-8 {
				res.Add("boundary_records", 1)
			}
			if ev.Off/vfmt.Block != (end-1)/vfmt.Block {
				res.Add("multiblock_writes", 1)
			}
		}
	}
}

func dirOf(p string) string {
	for i := len(p) - 1; i >= 0; i-- {
		if p[i] == '/' {
			return p[:i]
		}
	}
	return ""
}

func runMmapRemap(c core.Case, sc seqCase, w *core.Worker) core.Result {
	res := core.Result{}
	dir := w.Dir("big")
	s := core.NewSession(dir, sc.Cfg, &res)
	if !s.Open() {
		return res
	}
	r := core.NewRng(c.Seed)
	keys := [][]byte{[]byte("big0"), []byte("big1"), []byte("big2"), []byte("small")}
	var written int64
	s.Exec(core.Op{Kind: "put", Key: []byte("first"), VLen: 100, VSeed: r.U64() | 1}) // stays at offset 0
	for i := 0; written < 540<<20 && !s.Dead; i++ {
		k := keys[i%3]
		n := r.Range(6<<20, 9<<20)
		s.Exec(core.Op{Kind: "put", Key: k, VLen: n, VSeed: r.U64() | 1})
		written += int64(n)
		if i%7 == 3 {
			s.Exec(core.Op{Kind: "put", Key: keys[3], VLen: r.Range(1, 500), VSeed: r.U64() | 1})
			s.Exec(core.Op{Kind: "get", Key: keys[(i+1)%3]})
		}
	}
	res.Add("mmap_bytes_written_in_one_file", written)
	if !s.Dead {
		s.CheckDump("after crossing the 512 MiB mapping unit")
	}
	if !s.Dead {
		// Backup un-maps and shrinks every file; the next access re-establishes the mapping.
		// Make that access a READ at offset 0 of a file that is larger than one mapping unit.
		bk := w.Dir("bk")
		var err error
		pv, st := core.Safe(func() { err = s.DB.Backup(bk) })
		os.RemoveAll(bk)
		if pv != nil || err != nil {
			res.Violate(fmt.Sprintf("Backup of a database with a > 512 MiB memory-mapped file failed: %v %v", pv, err), map[string]string{"class": "mmap-remap", "kind": "backup"}, st)
			s.Dead = true
		} else {
			s.CheckGet([]byte("first"))
			if !s.Dead {
				s.CheckDump("after Backup and a read at offset 0 of the > 512 MiB file")
			}
			res.Add("backups_of_a_file_beyond_one_mapping_unit", 1)
		}
	}
	if !s.Dead {
		s.Exec(core.Op{Kind: "restart"})
	}
	if s.DB != nil {
		s.Close()
	}
	res.Add("rotations", 1) // this case is about the remap path, not rotation
	res.Add("boundary_records", 1)
	res.Nontrivial = written > 512<<20
	res.Hash = core.HashBytes([]byte("mmap-remap"))
	res.Sample = map[string]any{"kind": "mmap-remap", "bytes_written_in_one_file": written, "ops": len(s.Log)}
	return res
}

func (c01) Run(c core.Case, w *core.Worker) core.Result {
	sc := c.Data.(seqCase)
	if sc.NOps == -1 {
		return runMmapRemap(c, sc, w)
	}
	if sc.NOps == -2 {
		return runRefused(c, sc, w)
	}
	if sc.NOps == -3 {
		return runBeyond4GiB(c, sc, w)
	}
	if sc.NOps < 0 {
		return runLargePopulation(c, sc, w)
	}
	res := core.Result{}
	dir := w.Dir("db")
	io := mon.NewIOLog()
	ioObserver(io, dir, &res)
	defer io.Install()()
	s := core.NewSession(dir, sc.Cfg, &res)
	s.IO = io
	// every other case hands keys and values over in buffers it reuses and overwrites after
	// each call returns (the way a caller with a scratch buffer does): an engine that keeps
	// the caller's slice in its index then loses or mixes up acknowledged keys (s10-M01)
	if s.ReuseBuf = c.Index%2 == 1; s.ReuseBuf {
		res.Add("cases_with_reused_caller_buffers", 1)
	}
	r := core.NewRng(c.Seed)
	g := &core.Gen{R: r, Keys: core.GenKeys(r, sc.NKeys), Cfg: sc.Cfg, NoRestart: true, EndOff: io.ActiveEnd}
	if !s.Open() {
		return res
	}
	overwrites := 0
	for i := 0; i < sc.NOps && !s.Dead; i++ {
		op := g.Next()
		if op.Kind == "put" || op.Kind == "del" {
			if _, ok := s.M.Get(op.Key); ok {
				overwrites++
			}
		}
		if !s.Exec(op) {
			break
		}
		if i%8 == 7 && !s.CheckDump("periodic") {
			break
		}
	}
	if !s.Dead {
		s.CheckDump("final")
	}
	if s.DB != nil {
		s.Close()
	}
	res.Add("model_states", int64(len(s.States)))
	for h := range s.States {
		res.SetAdd("model_state", h)
		if len(res.Sets["model_state"]) > 200 {
			break
		}
	}
	res.Nontrivial = (res.Counters["rotations"] > 0 || res.Counters["multiblock_writes"] > 0) && overwrites > 0
	res.Hash = core.HashBytes([]byte(sc.Cfg.String()), []byte(fmt.Sprint(s.Log)))
	res.SetAdd("config", sc.Cfg.String())
	if c.Index < 3 {
		res.Sample = map[string]any{"config": sc.Cfg, "ops": firstN(s.Log, 40), "total_ops": len(s.Log)}
	}
	return res
}

func firstN(l []string, n int) []string {
	if len(l) > n {
		return l[:n]
	}
	return l
}
