package props

import (
	"bytes"
	"errors"
	"fmt"
	"runtime"
	"sort"
	"strconv"
	"strings"
	"sync"
	"sync/atomic"
	"time"

	kv "github.com/XiXi-2024/xixi-kv"
	"github.com/XiXi-2024/xixi-kv/vhook"
	"github.com/anishathalye/porcupine"
	"verif/harness/core"
)

// C08 — concurrent Put/Get/Delete are linearizable and agree with recovery.
type c08 struct{}

func init() { core.Register(c08{}) }

func (c08) ID() string    { return "C08" }
func (c08) Level() string { return "exploration" }
func (c08) Rule() string {
	return "two case kinds. (sched) small programs - 2 clients x 1..2 ops or 3 clients x 1 op, op in {Put k, Delete k, Get k, and a 40 KiB Put that makes the active file rotate inside the other clients' windows} on one shared, pre-populated key, optionally plus a client running Merge - are executed under the pause scheduler: every client goroutine blocks at each engine hook point (put.afterAppend, get.afterIndex, delete.afterCheck, delete.afterAppend, merge.afterRotate, merge.record, merge.beforeMarker, merge.done) until granted; a depth-first search over the grant choices enumerates every ordering of the hook-delimited segments (a granted client that neither parks nor returns within 25 ms is taken to be blocked on an engine lock and another client is granted: this only steers exploration); each execution yields a history. (stress) 2..16 clients x 4..80 ops over 1..4 keys (at most ~64 operations per key and history: blind deletes make absent reads ambiguous, which is what drives the search cost), small DataFileSize, a concurrent Merge client in a third of the cases, stateless yield/sleep injection at the same hook points, -race build. Every history is recorded at the client boundary (call stamp before invoking, return stamp after the reply, one monotonic clock; every Put writes a unique value so a read identifies its write) and, completed by one final Get per key, is checked with porcupine v1.3.0 against a per-key register model (partitioned by key, 30 s timeout -> inconclusive); a returned error from Put/Delete/Get other than key-not-found is a violation; after quiescence the database is closed and reopened and every key must read what the final live Get read. Non-trivial: sched program with >=3 distinct realised interleavings, stress history in which >=2 clients' operations on one key overlapped in time; distinct = hash of the realised grant sequence resp. of the history All three sync strategies are used (Threshold with BytesPerSync 1..700, so that an fsync happens inside many of the writes). A further family of hot-key stress histories (320 quick / 4000 thorough): 2..4 writers alternate Put and Delete on one key of a pre-filled database while a client runs Merge again and again until they have finished."
}
func (c08) Assumptions() []string {
	return []string{"porcupine v1.3.0 decides linearizability of the recorded history", "schedule control exists only at the hook points; pre-emptions inside a segment are reached by the stress part only",
		"scans, batches, ListKeys/Fold are not part of the checked histories (statement: Put, Delete, Get, with a concurrent Merge)"}
}
func (c08) Required() []string {
	return []string{"histories_checked", "ops_recorded", "sched_executions", "stress_histories", "restart_comparisons", "merge_clients"}
}
func (c08) CaseBudget(string) time.Duration { return 600 * time.Second }

type c08Case struct {
	Kind    string
	Prog    [][]string // sched: per client list of ops "put","del","get"
	Merge   bool
	Hot     bool // one hot key, writers only (Put/Delete), Merge running for the whole history over a pre-filled database
	Cfg     core.Config
	Clients int
	NOps    int
	NKeys   int
}

func (c08) Cases(tier string, seed uint64) []core.Case {
	r := core.NewRng(core.Mix(seed, 0xC08))
	var out []core.Case
	ops := []string{"put", "del", "get"}
	var progs [][][]string
	// all 2x1 programs, a sample of 2x2 and 3x1
	for _, a := range ops {
		for _, b := range ops {
			progs = append(progs, [][]string{{a}, {b}})
		}
	}
	n22, n31 := 8, 8
	if tier == "thorough" {
		n22, n31 = 60, 27
	}
	// "bput" = a Put whose value is large enough that two of them rotate the active file,
	// so that rotation happens inside the windows of the other clients
	ops4 := []string{"put", "del", "get", "bput"}
	for i := 0; i < n22; i++ {
		progs = append(progs, [][]string{{ops4[r.Intn(4)], ops4[r.Intn(4)]}, {ops4[r.Intn(4)], ops4[r.Intn(4)]}})
	}
	for i := 0; i < n31; i++ {
		progs = append(progs, [][]string{{ops4[r.Intn(4)]}, {ops4[r.Intn(4)]}, {ops4[r.Intn(4)]}})
	}
	progs = append(progs, [][]string{{"bput", "bput"}, {"get", "get"}}, [][]string{{"bput", "bput"}, {"del", "put"}})
	for i, p := range progs {
		for _, mg := range []bool{false, true} {
			if mg && len(p) == 3 && tier != "thorough" && i%2 == 0 {
				continue
			}
			cfg := core.Config{IndexType: core.IndexTypes[r.Intn(3)], ShardNum: []int{1, 16}[r.Intn(2)], FileIO: byte(r.Intn(2)), DataFileSize: 64 << 10}
			switch r.Intn(4) {
			case 1:
				cfg.Sync, cfg.BytesPerSync = 2, 1
			case 3:
				cfg.Sync = 1
			}
			out = append(out, core.Case{Index: len(out), ID: fmt.Sprintf("c08-sched-%04d", len(out)), Seed: r.U64(), Data: c08Case{Kind: "sched", Prog: p, Merge: mg, Cfg: cfg}})
		}
	}
	ns := 96
	if tier == "thorough" {
		ns = 3000
	}
	for i := 0; i < ns; i++ {
		cfg := core.Config{IndexType: core.IndexTypes[i%3], ShardNum: []int{1, 4, 16}[r.Intn(3)], FileIO: byte((i / 3) % 2), DataFileSize: []int64{4 << 10, 16 << 10, 64 << 10}[r.Intn(3)]}
		switch i % 4 {
		case 1:
			cfg.Sync, cfg.BytesPerSync = 2, uint([]int{1, 64, 700}[r.Intn(3)]) // Threshold: an fsync inside many of the writes
		case 3:
			cfg.Sync = 1 // Always
		}
		cl := []int{2, 3, 4, 8, 16}[r.Intn(5)]
		nops := r.Range(30, 80)
		nkeys := r.Range(1, 4)
		// many short histories rather than few enormous ones: the cost of the linearizability
		// search grows steeply with the number of overlapping operations per key
		if lim := 64 * nkeys / cl; nops > lim {
			nops = max(lim, 4)
		}
		out = append(out, core.Case{Index: len(out), ID: fmt.Sprintf("c08-stress-%04d", i), Seed: r.U64(),
			Data: c08Case{Kind: "stress", Cfg: cfg, Clients: cl, NOps: nops, NKeys: nkeys, Merge: i%3 == 0}})
	}
	// hot-key histories: 2..4 writers alternate Put and Delete on ONE key while Merge runs again
	// and again over a pre-filled database (windows that exist only while a merge is in
	// progress and contain no hook point are only reachable by volume)
	nh := 320
	if tier == "thorough" {
		nh = 4000
	}
	for i := 0; i < nh; i++ {
		cfg := core.Config{IndexType: core.IndexTypes[i%3], ShardNum: []int{1, 4, 16}[r.Intn(3)], FileIO: byte((i / 3) % 2), DataFileSize: 64 << 10, Sync: byte(i % 3 % 2)}
		cl := r.Range(2, 4)
		out = append(out, core.Case{Index: len(out), ID: fmt.Sprintf("c08-hot-%04d", i), Seed: r.U64(),
			Data: c08Case{Kind: "stress", Cfg: cfg, Clients: cl, NOps: 60 / cl, NKeys: 1, Merge: true, Hot: true}})
	}
	return out
}

// ---------------------------------------------------------------------------
// history + porcupine model

type regIn struct {
	Op  string // put del get
	Key string
	Val string
}

type hop struct {
	client int
	in     regIn
	out    string // get: value or "" (absent); put/del: "ok" or error text
	call   int64
	ret    int64
}

var regModel = porcupine.Model{
	Partition: func(history []porcupine.Operation) [][]porcupine.Operation {
		m := map[string][]porcupine.Operation{}
		var keys []string
		for _, op := range history {
			k := op.Input.(regIn).Key
			if _, ok := m[k]; !ok {
				keys = append(keys, k)
			}
			m[k] = append(m[k], op)
		}
		sort.Strings(keys)
		out := make([][]porcupine.Operation, 0, len(keys))
		for _, k := range keys {
			out = append(out, m[k])
		}
		return out
	},
	Init: func() interface{} { return "" },
	Step: func(state, input, output interface{}) (bool, interface{}) {
		in := input.(regIn)
		switch in.Op {
		case "put":
			return true, in.Val
		case "del":
			return true, ""
		default:
			return output.(string) == state.(string), state
		}
	},
	DescribeOperation: func(input, output interface{}) string {
		in := input.(regIn)
		return fmt.Sprintf("%s(%s,%s)->%v", in.Op, in.Key, in.Val, output)
	},
}

// checkHistory runs porcupine and reports.
func checkHistory(h []hop, init map[string]string, res *core.Result, feat map[string]string, detail map[string]any) {
	var ops []porcupine.Operation
	// the pre-populated state enters the history as puts that completed before everything else
	t := int64(-1000)
	for k, v := range init {
		ops = append(ops, porcupine.Operation{ClientId: 0, Input: regIn{"put", k, v}, Call: t, Output: "ok", Return: t + 1})
		t += 2
	}
	for _, o := range h {
		ops = append(ops, porcupine.Operation{ClientId: o.client + 1, Input: o.in, Call: o.call, Output: o.out, Return: o.ret})
	}
	result, _ := porcupine.CheckOperationsVerbose(regModel, ops, 30*time.Second)
	res.Add("histories_checked", 1)
	res.Add("ops_recorded", int64(len(h)))
	switch result {
	case porcupine.Illegal:
		var lines []string
		sort.Slice(h, func(i, j int) bool { return h[i].call < h[j].call })
		for _, o := range h {
			lines = append(lines, fmt.Sprintf("c%d %s(%s,%s) -> %q  [%d,%d]", o.client, o.in.Op, o.in.Key, o.in.Val, o.out, o.call, o.ret))
		}
		if len(lines) > 120 {
			lines = lines[:120]
		}
		d := map[string]any{"history": lines, "initial": init}
		for k, v := range detail {
			d[k] = v
		}
		f := map[string]string{"class": "not-linearizable"}
		for k, v := range feat {
			f[k] = v
		}
		res.Violate("the recorded history of completed Put/Delete/Get calls has no per-key linearization", f, d)
	case porcupine.Unknown:
		res.Add("porcupine_unknown", 1)
		if res.Verdict != "violated" {
			res.Verdict = "inconclusive"
			res.Note = "porcupine timed out"
		}
	}
}

func getOut(v []byte, err error) string {
	switch {
	case err == nil:
		return "v:" + valueID(v)
	case errors.Is(err, kv.ErrKeyNotFound):
		return ""
	}
	return "error:" + err.Error()
}

// values are "<id>|padding"; the id identifies the write
func mkUniq(id string, n int) []byte {
	v := []byte(id + "|")
	for len(v) < n {
		v = append(v, 'x')
	}
	return v
}
func valueID(v []byte) string {
	if i := bytes.IndexByte(v, '|'); i >= 0 {
		return string(v[:i])
	}
	return "?" + core.HashBytes(v)[:8]
}

// quiescent comparison: final live Gets (also appended to the history) vs restart
func finalAndRestart(db *kv.DB, cfg core.Config, dir string, keys []string, h *[]hop, clock func() int64, res *core.Result, feat map[string]string, detail map[string]any) {
	live := map[string]string{}
	for _, k := range keys {
		c := clock()
		v, err := db.Get([]byte(k))
		o := getOut(v, err)
		*h = append(*h, hop{client: 99, in: regIn{"get", k, ""}, out: o, call: c, ret: clock()})
		live[k] = o
	}
	if err := db.Close(); err != nil {
		res.Violate("Close after quiescence failed: "+err.Error(), map[string]string{"class": "close-error"}, detail)
		return
	}
	db2, err := kv.Open(cfg.Options(dir))
	if err != nil {
		res.Violate("reopen after the concurrent run failed: "+err.Error(), map[string]string{"class": "open-error", "err": err.Error()}, detail)
		return
	}
	defer db2.Close()
	res.Add("restart_comparisons", 1)
	for _, k := range keys {
		v, err := db2.Get([]byte(k))
		if o := getOut(v, err); o != live[k] {
			f := map[string]string{"class": "live-vs-restart"}
			for kk, vv := range feat {
				f[kk] = vv
			}
			res.Violate(fmt.Sprintf("after quiescence key %q reads %q live but %q after restart: the log order and the live view disagree", k, live[k], o), f, detail)
			return
		}
	}
}

// ---------------------------------------------------------------------------
// stress

func (c08) Run(c core.Case, w *core.Worker) core.Result {
	cc := c.Data.(c08Case)
	if cc.Kind == "sched" {
		return runSched(c, cc, w)
	}
	res := core.Result{}
	old := vhook.Set(delayHandler{})
	defer vhook.Set(old)
	dir := w.Dir("db")
	db, err := kv.Open(cc.Cfg.Options(dir))
	if err != nil {
		res.Violate("Open failed: "+err.Error(), map[string]string{"class": "open-error"}, nil)
		return res
	}
	var keys []string
	for i := 0; i < cc.NKeys; i++ {
		keys = append(keys, fmt.Sprintf("k%d", i))
	}
	if cc.Hot {
		for i := 0; i < 300; i++ {
			db.Put([]byte(fmt.Sprintf("f%03d", i)), mkUniq("fill", 150))
		}
		res.Add("hot_key_histories", 1)
	}
	var writersDone atomic.Bool
	base := time.Now()
	clock := func() int64 { return time.Since(base).Nanoseconds() }
	hs := make([][]hop, cc.Clients)
	var wg, wwg sync.WaitGroup
	for ci := 0; ci < cc.Clients; ci++ {
		wwg.Add(1)
		wg.Add(1)
		go func(ci int) {
			defer wg.Done()
			defer wwg.Done()
			r := core.NewRng(core.Mix(c.Seed, uint64(ci)))
			for i := 0; i < cc.NOps; i++ {
				k := keys[r.Intn(len(keys))]
				var o hop
				x := r.Intn(10)
				if cc.Hot {
					x = []int{0, 4}[(ci+i)%2] // Put, Delete, Put, ... (the writers are out of phase)
				}
				switch {
				case x < 4:
					id := fmt.Sprintf("%d.%d", ci, i)
					n := r.Range(4, 700)
					if r.Chance(1, 12) {
						n = r.Range(3000, 9000)
					}
					val := mkUniq(id, n)
					o = hop{client: ci, in: regIn{"put", k, "v:" + id}, call: clock()}
					if err := db.Put([]byte(k), val); err != nil {
						o.out = "error:" + err.Error()
					} else {
						o.out = "ok"
					}
					o.in.Val = "v:" + id
				case x < 6:
					o = hop{client: ci, in: regIn{"del", k, ""}, call: clock()}
					if err := db.Delete([]byte(k)); err != nil {
						o.out = "error:" + err.Error()
					} else {
						o.out = "ok"
					}
				default:
					o = hop{client: ci, in: regIn{"get", k, ""}, call: clock()}
					v, err := db.Get([]byte(k))
					o.out = getOut(v, err)
				}
				o.ret = clock()
				hs[ci] = append(hs[ci], o)
			}
		}(ci)
	}
	if cc.Merge {
		wg.Add(1)
		res.Add("merge_clients", 1)
		go func() {
			defer wg.Done()
			for i := 0; i < 2 || (cc.Hot && !writersDone.Load() && i < 200); i++ {
				if !cc.Hot {
					time.Sleep(time.Duration(200+i*300) * time.Microsecond)
				}
				if err := db.Merge(); err != nil && !errors.Is(err, kv.ErrMergeOutputOverflow) {
					// reported below through a marker op
					hs[0] = append(hs[0], hop{client: 0, in: regIn{"get", "~merge", ""}, out: "error:merge:" + err.Error(), call: clock(), ret: clock()})
				}
			}
		}()
	}
	go func() { wwg.Wait(); writersDone.Store(true) }()
	wg.Wait()
	var h []hop
	for _, x := range hs {
		h = append(h, x...)
	}
	feat := map[string]string{"kind": "stress", "index": fmt.Sprint(cc.Cfg.IndexType), "io": fmt.Sprint(cc.Cfg.FileIO)}
	detail := map[string]any{"config": cc.Cfg, "clients": cc.Clients, "merge_client": cc.Merge}
	for _, o := range h {
		if strings.HasPrefix(o.out, "error:") {
			res.Violate(fmt.Sprintf("client %d: %s(%s) returned %s", o.client, o.in.Op, o.in.Key, o.out), map[string]string{"class": "unexpected-error", "kind": "stress"}, detail)
			break
		}
	}
	// overlap evidence
	overl := false
	byKey := map[string][]hop{}
	for _, o := range h {
		byKey[o.in.Key] = append(byKey[o.in.Key], o)
	}
	for _, l := range byKey {
		sort.Slice(l, func(i, j int) bool { return l[i].call < l[j].call })
		for i := 0; i+1 < len(l); i++ {
			if l[i+1].call < l[i].ret && l[i+1].client != l[i].client {
				overl = true
				res.Add("overlapping_op_pairs", 1)
			}
		}
	}
	filtered := h[:0]
	for _, o := range h {
		if o.in.Key != "~merge" {
			filtered = append(filtered, o)
		}
	}
	h = filtered
	if res.Verdict != "violated" {
		finalAndRestart(db, cc.Cfg, dir, keys, &h, clock, &res, feat, detail)
	} else {
		core.Safe(func() { db.Close() })
	}
	checkHistory(h, nil, &res, feat, detail)
	res.Add("stress_histories", 1)
	res.Nontrivial = overl
	var sb strings.Builder
	for _, o := range h {
		fmt.Fprintf(&sb, "%d%s%s%s;", o.client, o.in.Op, o.in.Key, o.out)
	}
	res.Hash = core.HashBytes([]byte(sb.String()))
	if c.Index%40 == 0 {
		var lines []string
		for _, o := range h[:min(len(h), 12)] {
			lines = append(lines, fmt.Sprintf("c%d %s(%s,%s)->%q [%d,%d]", o.client, o.in.Op, o.in.Key, o.in.Val, o.out, o.call, o.ret))
		}
		res.Sample = map[string]any{"kind": "stress", "config": cc.Cfg, "clients": cc.Clients, "ops": len(h), "history_head": lines}
	}
	return res
}

// ---------------------------------------------------------------------------
// pause scheduler

type sclient struct {
	id      int
	grant   chan struct{}
	state   int // 0 running 1 parked 2 done
	at      string
	pending bool
}

type pauseSched struct {
	mu      sync.Mutex
	byGoid  map[int64]*sclient
	clients []*sclient
	events  chan int // client id that parked or finished
}

func curGoid() int64 {
	var buf [64]byte
	n := runtime.Stack(buf[:], false)
	f := strings.Fields(string(buf[:n]))
	if len(f) < 2 {
		return -1
	}
	id, _ := strconv.ParseInt(f[1], 10, 64)
	return id
}

func (s *pauseSched) IO(kind, path string, off int64, n int, buf []byte) {}
func (s *pauseSched) FS(kind, a, b string)                               {}
func (s *pauseSched) Point(name string) {
	gid := curGoid()
	s.mu.Lock()
	c := s.byGoid[gid]
	s.mu.Unlock()
	if c == nil {
		return
	}
	s.park(c, name)
}

func (s *pauseSched) park(c *sclient, name string) {
	s.mu.Lock()
	c.state, c.at = 1, name
	s.mu.Unlock()
	s.events <- c.id
	<-c.grant
}

func (s *pauseSched) register(c *sclient) {
	s.mu.Lock()
	s.byGoid[curGoid()] = c
	s.mu.Unlock()
}

func (s *pauseSched) finish(c *sclient) {
	s.mu.Lock()
	c.state = 2
	s.mu.Unlock()
	s.events <- c.id
}

type decision struct {
	chosen int
	n      int
	label  string
}

// execOnce runs the program once following the choice prefix; returns the trace of decisions.
func execOnce(cc c08Case, dir string, choices []int, caseSeed uint64, res *core.Result) (trace []decision, h []hop, init map[string]string, db *kv.DB, inconclusive bool, keys []string) {
	var err error
	db, err = kv.Open(cc.Cfg.Options(dir))
	if err != nil {
		res.Violate("Open failed: "+err.Error(), map[string]string{"class": "open-error"}, nil)
		return nil, nil, nil, nil, false, nil
	}
	key := "k"
	keys = []string{key}
	init = map[string]string{key: "v:init"}
	db.Put([]byte(key), mkUniq("init", 20))
	if cc.Merge {
		// some garbage and a second key so that the merge scan has a few records
		db.Put([]byte("other"), mkUniq("o1", 30))
		db.Put([]byte("other"), mkUniq("o2", 30))
		init["other"] = "v:o2"
		keys = append(keys, "other")
	}
	nclients := len(cc.Prog)
	if cc.Merge {
		nclients++
	}
	s := &pauseSched{byGoid: map[int64]*sclient{}, events: make(chan int, 64)}
	var clk int64
	var clkMu sync.Mutex
	clock := func() int64 { clkMu.Lock(); clk++; v := clk; clkMu.Unlock(); return v }
	hs := make([][]hop, nclients)
	for i := 0; i < nclients; i++ {
		s.clients = append(s.clients, &sclient{id: i, grant: make(chan struct{})})
	}
	old := vhook.Set(s)
	defer vhook.Set(old)
	for ci := 0; ci < nclients; ci++ {
		c := s.clients[ci]
		go func(ci int, c *sclient) {
			s.register(c)
			s.park(c, "start")
			if ci >= len(cc.Prog) {
				if err := db.Merge(); err != nil && !errors.Is(err, kv.ErrMergeOutputOverflow) {
					hs[ci] = append(hs[ci], hop{client: ci, in: regIn{"get", "~merge", ""}, out: "error:merge:" + err.Error()})
				}
				s.finish(c)
				return
			}
			for oi, op := range cc.Prog[ci] {
				var o hop
				switch op {
				case "put", "bput":
					id := fmt.Sprintf("%d.%d", ci, oi)
					o = hop{client: ci, in: regIn{"put", key, "v:" + id}, call: clock()}
					size := 24
					if op == "bput" {
						size = 40 << 10
					}
					if err := db.Put([]byte(key), mkUniq(id, size)); err != nil {
						o.out = "error:" + err.Error()
					} else {
						o.out = "ok"
					}
				case "del":
					o = hop{client: ci, in: regIn{"del", key, ""}, call: clock()}
					if err := db.Delete([]byte(key)); err != nil {
						o.out = "error:" + err.Error()
					} else {
						o.out = "ok"
					}
				default:
					o = hop{client: ci, in: regIn{"get", key, ""}, call: clock()}
					v, err := db.Get([]byte(key))
					o.out = getOut(v, err)
				}
				o.ret = clock()
				hs[ci] = append(hs[ci], o)
				if oi+1 < len(cc.Prog[ci]) {
					s.park(c, "between-ops")
				}
			}
			s.finish(c)
		}(ci, c)
	}
	// wait until everybody is parked at start
	parkedAtStart := 0
	for parkedAtStart < nclients {
		select {
		case <-s.events:
			parkedAtStart++
		case <-time.After(10 * time.Second):
			return trace, nil, init, db, true, keys
		}
	}
	depth := 0
	stuckRounds := 0
	for {
		s.mu.Lock()
		var cand []*sclient
		done := 0
		for _, c := range s.clients {
			switch c.state {
			case 1:
				cand = append(cand, c)
			case 2:
				done++
			}
		}
		s.mu.Unlock()
		if done == nclients {
			break
		}
		if len(cand) == 0 {
			// everybody left is running (blocked on a lock or still executing): wait for an event
			select {
			case <-s.events:
				stuckRounds = 0
			case <-time.After(2 * time.Second):
				stuckRounds++
				if stuckRounds > 5 {
					return trace, nil, init, db, true, keys
				}
			}
			continue
		}
		ch := 0
		if depth < len(choices) {
			ch = choices[depth]
		}
		if ch >= len(cand) {
			ch = len(cand) - 1
		}
		c := cand[ch]
		trace = append(trace, decision{chosen: ch, n: len(cand), label: fmt.Sprintf("c%d@%s", c.id, c.at)})
		depth++
		s.mu.Lock()
		c.state = 0
		s.mu.Unlock()
		c.grant <- struct{}{}
		// wait for this client to park again or finish; if it does neither it is blocked
		deadline := time.After(25 * time.Millisecond)
	wait:
		for {
			select {
			case id := <-s.events:
				if id == c.id {
					break wait
				}
			case <-deadline:
				break wait
			}
		}
	}
	for _, x := range hs {
		h = append(h, x...)
	}
	return trace, h, init, db, false, keys
}

func runSched(c core.Case, cc c08Case, w *core.Worker) core.Result {
	res := core.Result{}
	if cc.Merge {
		res.Add("merge_clients", 1)
	}
	maxExec := 60
	if w.Tier == "thorough" {
		maxExec = 400
	}
	var choices []int
	distinct := map[string]bool{}
	feat := map[string]string{"kind": "sched", "index": fmt.Sprint(cc.Cfg.IndexType), "io": fmt.Sprint(cc.Cfg.FileIO), "merge": fmt.Sprint(cc.Merge)}
	exhausted := false
	for n := 0; n < maxExec; n++ {
		dir := w.Dir("s")
		trace, h, init, db, inc, keys := execOnce(cc, dir, choices, c.Seed, &res)
		if db == nil {
			return res
		}
		var labels []string
		for _, d := range trace {
			labels = append(labels, d.label)
		}
		sig := strings.Join(labels, " ")
		if inc {
			res.Add("sched_inconclusive", 1)
			if res.Verdict != "violated" {
				res.Verdict = "inconclusive"
				res.Note = "scheduler watchdog: clients neither parked nor finished (schedule: " + sig + ")"
			}
			// the database handle may have stuck goroutines: abandon it
			break
		}
		res.Add("sched_executions", 1)
		distinct[sig] = true
		detail := map[string]any{"program": cc.Prog, "merge_client": cc.Merge, "config": cc.Cfg, "grant_sequence": labels}
		for _, o := range h {
			if strings.HasPrefix(o.out, "error:") {
				res.Violate(fmt.Sprintf("client %d: %s(%s) returned %s under schedule [%s]", o.client, o.in.Op, o.in.Key, o.out, sig), map[string]string{"class": "unexpected-error", "kind": "sched"}, detail)
			}
		}
		var clk int64 = 1 << 40
		clock := func() int64 { clk++; return clk }
		filtered := h[:0]
		for _, o := range h {
			if o.in.Key != "~merge" {
				filtered = append(filtered, o)
			}
		}
		h = filtered
		finalAndRestart(db, cc.Cfg, dir, keys, &h, clock, &res, feat, detail)
		checkHistory(h, init, &res, feat, detail)
		w.Clean()
		if res.Verdict == "violated" {
			break
		}
		// next choice sequence (depth-first, odometer on the trace)
		i := len(trace) - 1
		for i >= 0 && trace[i].chosen+1 >= trace[i].n {
			i--
		}
		if i < 0 {
			exhausted = true
			break
		}
		choices = choices[:0]
		for j := 0; j < i; j++ {
			choices = append(choices, trace[j].chosen)
		}
		choices = append(choices, trace[i].chosen+1)
	}
	if exhausted {
		res.Add("sched_programs_exhausted", 1)
	}
	res.Add("distinct_interleavings", int64(len(distinct)))
	res.Nontrivial = len(distinct) >= 3
	var sigs []string
	for s := range distinct {
		sigs = append(sigs, s)
	}
	sort.Strings(sigs)
	res.Hash = core.HashBytes([]byte(fmt.Sprint(cc.Prog, cc.Merge, sigs)))
	if c.Index < 3 {
		res.Sample = map[string]any{"kind": "sched", "program": cc.Prog, "merge_client": cc.Merge, "distinct_interleavings": len(distinct), "exhausted": exhausted, "interleavings": firstN(sigs, 6)}
	}
	return res
}
