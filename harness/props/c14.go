package props

import (
	"crypto/sha256"
	"encoding/hex"
	"errors"
	"fmt"
	"os"
	"path/filepath"
	"strings"

	kv "github.com/XiXi-2024/xixi-kv"
	"verif/harness/core"
)

// C14 — behaviour is independent of index type, shard count, I/O type and limits.
type c14 struct{}

func init() { core.Register(c14{}) }

func (c14) ID() string    { return "C14" }
func (c14) Level() string { return "exploration" }
func (c14) Rule() string {
	return "cases = one generated op sequence (puts, deletes, gets, batches, syncs, merges, restarts, ListKeys/Fold/Stat, iterator walks with prefix/reverse/seek; wandering iterators that Seek in any direction, also behind the cursor, whose lines are compared only between configurations with the same ShardNum - the base run and two others, covering all three index types and both I/O types; in half of the cases the caller reuses one key buffer and one value buffer for every call and overwrites them after each return) executed in lock-step under a base configuration and 5 (quick) / 11 (thorough) others: all index types x ShardNum {1,2,3,16,1024,5000} x both I/O types with the other dimensions fixed, then DataFileSize and SyncStrategy varied; every call contributes one transcript line (op, result length + hash, error text; ListKeys and iterator walks verbatim; restart contributes the hash of the recovered mapping); transcripts must be identical to the base run's (first differing line = witness); for batch-free, merge-free sequences with equal DataFileSize the SHA-256 of every *.data file after the final Close must be identical too. Non-trivial: sequence with >=1 restart, >=1 iterator walk and >=3 distinct configurations compared; distinct = hash of (op list, configurations)"
}
func (c14) Assumptions() []string {
	return []string{"Merge's own return value is not part of the transcript (whether the rewritten data needs more files than were merged depends on the file-size limit and on the engine's unordered file scan; the mapping after Merge is compared)",
		"batch ids are time based and Merge rewrites files in Go map order, so file bytes are compared for batch-free and merge-free sequences only (every third case)"}
}
func (c14) Required() []string {
	return []string{"transcript_lines_compared", "config_pairs_compared", "file_sets_compared", "iterator_walks", "wandering_iterator_lines_compared", "restarts", "reuse_buffer_runs"}
}

type c14Case struct {
	NOps    int
	NKeys   int
	Reuse   bool
	NoBatch bool
	NCfg    int
}

func (c14) Cases(tier string, seed uint64) []core.Case {
	n := 120
	ncfg := 5
	if tier == "thorough" {
		n, ncfg = 6000, 11
	}
	r := core.NewRng(core.Mix(seed, 0xC14))
	var out []core.Case
	for i := 0; i < n; i++ {
		out = append(out, core.Case{Index: i, ID: fmt.Sprintf("c14-%05d", i), Seed: r.U64(),
			Data: c14Case{NOps: r.Range(40, 220), NKeys: r.Range(3, 10), Reuse: i%2 == 0, NoBatch: i%3 == 0, NCfg: ncfg}})
	}
	return out
}

type transcript struct {
	lines []string
	files map[string]string
	err   string
}

func hashOf(b []byte) string {
	h := sha256.Sum256(b)
	return hex.EncodeToString(h[:6])
}

func errStr(err error) string {
	if err == nil {
		return "ok"
	}
	return "err:" + err.Error()
}

// runTranscript executes ops under cfg and records one line per call.
func runTranscript(dir string, cfg core.Config, ops []core.Op, reuse bool, res *core.Result) (t transcript) {
	t.files = map[string]string{}
	var db *kv.DB
	var kbuf, vbuf []byte
	key := func(k []byte) []byte {
		if !reuse {
			return k
		}
		kbuf = append(kbuf[:0], k...)
		return kbuf
	}
	val := func(v []byte) []byte {
		if !reuse {
			return v
		}
		vbuf = append(vbuf[:0], v...)
		return vbuf
	}
	scribble := func() {
		for i := range kbuf[:cap(kbuf)] {
			kbuf[:cap(kbuf)][i] = 0xEE
		}
		for i := range vbuf[:cap(vbuf)] {
			vbuf[:cap(vbuf)][i] = 0xDD
		}
	}
	add := func(f string, a ...any) { t.lines = append(t.lines, fmt.Sprintf(f, a...)) }
	mapping := func() string {
		h := sha256.New()
		n := 0
		err := db.Fold(func(k, v []byte) bool {
			fmt.Fprintf(h, "%d:%s=%d:%s;", len(k), k, len(v), hashOf(v))
			n++
			return true
		})
		return fmt.Sprintf("%d keys %s %s keynum=%d", n, hex.EncodeToString(h.Sum(nil)[:8]), errStr(err), db.Stat().KeyNum)
	}
	pv, st := core.Safe(func() {
		var err error
		db, err = kv.Open(cfg.Options(dir))
		if err != nil {
			t.err = "Open: " + err.Error()
			return
		}
		for i, op := range ops {
			switch op.Kind {
			case "put":
				err := db.Put(key(op.Key), val(op.Value()))
				scribble()
				add("%d put %x %s", i, op.Key, errStr(err))
			case "del":
				err := db.Delete(key(op.Key))
				scribble()
				add("%d del %x %s", i, op.Key, errStr(err))
			case "get":
				v, err := db.Get(key(op.Key))
				scribble()
				add("%d get %x -> len=%d %s %s", i, op.Key, len(v), hashOf(v), errStr(err))
			case "batch":
				b := db.NewBatch(kv.BatchOptions{Sync: op.BSync})
				for j, so := range op.Sub {
					switch so.Kind {
					case "put":
						err := b.Put(key(so.Key), val(so.Value()))
						scribble()
						add("%d.%d bput %x %s", i, j, so.Key, errStr(err))
					case "del":
						err := b.Delete(key(so.Key))
						scribble()
						add("%d.%d bdel %x %s", i, j, so.Key, errStr(err))
					case "get":
						v, err := b.Get(key(so.Key))
						scribble()
						add("%d.%d bget %x -> len=%d %s %s", i, j, so.Key, len(v), hashOf(v), errStr(err))
					}
				}
				add("%d commit %s", i, errStr(b.Commit()))
			case "sync":
				add("%d sync %s", i, errStr(db.Sync()))
			case "merge":
				db.Merge()
				add("%d merge -> %s", i, mapping())
			case "restart":
				if err := db.Close(); err != nil {
					t.err = "Close: " + err.Error()
					return
				}
				db, err = kv.Open(cfg.Options(dir))
				if err != nil {
					t.err = "reopen: " + err.Error()
					return
				}
				add("%d restart -> %s", i, mapping())
			case "listkeys":
				ks := db.ListKeys()
				add("%d listkeys %x", i, ks)
			case "fold":
				add("%d fold %s", i, mapping())
			case "stat":
				add("%d stat keynum=%d", i, db.Stat().KeyNum)
			case "iter":
				// VLen encodes options: bit0 reverse, bit1 use prefix, bit2 seek first
				opts := kv.IteratorOptions{Reverse: op.VLen&1 != 0}
				if op.VLen&2 != 0 && len(op.Key) > 0 {
					opts.Prefix = op.Key[:1]
				}
				it := db.NewIterator(opts)
				if op.VLen&4 != 0 {
					it.Seek(op.Key)
				} else {
					it.Rewind()
				}
				// writes issued while the iterator is open must not show through it
				for _, so := range op.Sub {
					if so.Kind == "put" {
						db.Put(key(so.Key), val(so.Value()))
					} else {
						db.Delete(key(so.Key))
					}
					scribble()
				}
				line := fmt.Sprintf("%d iter rev=%v prefix=%x seek=%v writes=%d:", i, opts.Reverse, opts.Prefix, op.VLen&4 != 0, len(op.Sub))
				for ; it.Valid(); it.Next() {
					v, err := it.Value()
					line += fmt.Sprintf(" %x=%d:%s:%s", it.Key(), len(v), hashOf(v), errStr(err))
				}
				it.Close()
				add("%s", line)
			case "iterw":
				// a wandering iterator: Seeks in ANY direction (also behind the cursor and on a
				// partly consumed iterator), Nexts and Rewinds. What a backward Seek yields is
				// history dependent and depends on how keys hash to shards, so this line is
				// compared only between configurations with the same ShardNum ("@shards" tag)
				it := db.NewIterator(kv.IteratorOptions{Reverse: op.VLen&1 != 0})
				line := fmt.Sprintf("@shards %d iterw rev=%v:", i, op.VLen&1 != 0)
				for _, so := range op.Sub {
					switch so.Kind {
					case "seek":
						it.Seek(so.Key)
						line += fmt.Sprintf(" S(%x)", so.Key)
					case "rewind":
						it.Rewind()
						line += " R"
					default:
						for n := 0; n < so.VLen && it.Valid(); n++ {
							it.Next()
						}
						line += fmt.Sprintf(" N%d", so.VLen)
					}
					if it.Valid() {
						v, err := it.Value()
						line += fmt.Sprintf("=%x:%s:%s", it.Key(), hashOf(v), errStr(err))
					} else {
						line += "=end"
					}
				}
				it.Close()
				add("%s", line)
			}
		}
		add("final -> %s", mapping())
		if err := db.Close(); err != nil {
			t.err = "final Close: " + err.Error()
			return
		}
		for _, f := range core.DataFiles(dir) {
			b, _ := os.ReadFile(filepath.Join(dir, f))
			t.files[f] = fmt.Sprintf("%d:%s", len(b), hashOf(b))
		}
	})
	if pv != nil {
		t.err = fmt.Sprintf("panic: %v\n%s", pv, st)
	}
	if t.err != "" && errors.Is(nil, nil) {
		add("ABORTED: %s", t.err)
	}
	return
}

func (c14) Run(c core.Case, w *core.Worker) core.Result {
	cc := c.Data.(c14Case)
	res := core.Result{}
	r := core.NewRng(c.Seed)
	keys := core.GenKeys(r, cc.NKeys)
	base := core.Config{IndexType: 3, ShardNum: 16, FileIO: 0, DataFileSize: 40 << 10, Sync: 0}
	g := &core.Gen{R: r, Keys: keys, Cfg: base, NoBatch: cc.NoBatch, NoMerge: cc.NoBatch, MaxVal: 70 << 10}
	var ops []core.Op
	fake := int64(0)
	g.EndOff = func() int64 { return fake }
	for i := 0; i < cc.NOps; i++ {
		var op core.Op
		if r.Chance(1, 9) {
			op = core.Op{Kind: "iter", Key: g.Key(), VLen: r.Intn(8)}
			res.Add("iterator_walks", 1)
			if r.Chance(1, 2) {
				for k := r.Range(1, 4); k > 0; k-- {
					if r.Chance(3, 4) {
						op.Sub = append(op.Sub, core.Op{Kind: "put", Key: g.Key(), VLen: r.Range(0, 300), VSeed: r.U64()})
					} else {
						op.Sub = append(op.Sub, core.Op{Kind: "del", Key: g.Key()})
					}
				}
				res.Add("iterator_walks_with_writes", 1)
			}
		} else if r.Chance(1, 12) {
			op = core.Op{Kind: "iterw", VLen: r.Intn(2)}
			for k := r.Range(3, 12); k > 0; k-- {
				switch c := r.Intn(10); {
				case c < 5:
					tk := append([]byte{}, g.Key()...)
					if r.Chance(1, 3) && len(tk) > 1 {
						tk = tk[:r.Range(1, len(tk)-1)]
					}
					if r.Chance(1, 12) {
						tk = [][]byte{nil, {}, {0}, {0xff, 0xff, 0xff, 0xff, 0xff}}[r.Intn(4)] // the ends of the key space
					}
					op.Sub = append(op.Sub, core.Op{Kind: "seek", Key: tk})
				case c < 6:
					op.Sub = append(op.Sub, core.Op{Kind: "rewind"})
				default:
					op.Sub = append(op.Sub, core.Op{Kind: "next", VLen: r.Range(1, 6)})
				}
			}
			res.Add("wandering_iterators", 1)
		} else {
			op = g.Next()
		}
		if op.Kind == "put" {
			fake += int64(op.VLen) + 20
		}
		ops = append(ops, op)
	}
	ops = append(ops, core.Op{Kind: "restart"})
	// configurations: index/shards/io with equal limits first, then limits and sync
	cfgs := []core.Config{base}
	for len(cfgs) < 1+cc.NCfg*2/3+1 {
		x := base
		x.IndexType = core.IndexTypes[r.Intn(3)]
		x.ShardNum = core.ShardNums[r.Intn(len(core.ShardNums))]
		x.FileIO = byte(r.Intn(2))
		cfgs = append(cfgs, x)
	}
	for len(cfgs) < 1+cc.NCfg {
		x := core.RandConfig(r)
		cfgs = append(cfgs, x)
	}
	// make sure every index type and both I/O types appear
	cfgs[1].IndexType, cfgs[1].FileIO = 1, 1
	cfgs[2].IndexType = 2
	// ... with the base run's shard count, so that shard-dependent lines are compared
	// across all three index types and both I/O types
	cfgs[1].ShardNum, cfgs[2].ShardNum = base.ShardNum, base.ShardNum
	var logl []string
	for _, op := range ops {
		logl = append(logl, op.String())
	}
	var ref transcript
	for ci, cfg := range cfgs {
		dir := w.Dir("cfg")
		t := runTranscript(dir, cfg, ops, cc.Reuse, &res)
		if cc.Reuse {
			res.Add("reuse_buffer_runs", 1)
		}
		for _, op := range ops {
			if op.Kind == "restart" {
				res.Add("restarts", 1)
			}
		}
		if ci == 0 {
			ref = t
			if t.err != "" {
				res.Violate("base configuration run failed: "+t.err, map[string]string{"class": "config-dependence", "kind": "base-run-error"}, map[string]any{"config": cfg, "ops": firstN(logl, 60)})
				return res
			}
			continue
		}
		res.Add("config_pairs_compared", 1)
		res.SetAdd("config", cfg.String())
		n := len(t.lines)
		if len(ref.lines) < n {
			n = len(ref.lines)
		}
		diffAt := -1
		for i := 0; i < n; i++ {
			if cfg.ShardNum != base.ShardNum && strings.HasPrefix(ref.lines[i], "@shards ") && strings.HasPrefix(t.lines[i], "@shards ") {
				continue
			}
			res.Add("transcript_lines_compared", 1)
			if strings.HasPrefix(ref.lines[i], "@shards ") {
				res.Add("wandering_iterator_lines_compared", 1)
			}
			if t.lines[i] != ref.lines[i] {
				diffAt = i
				break
			}
		}
		if diffAt < 0 && len(t.lines) != len(ref.lines) {
			diffAt = n
		}
		if diffAt >= 0 {
			a, b := "<end>", "<end>"
			if diffAt < len(ref.lines) {
				a = ref.lines[diffAt]
			}
			if diffAt < len(t.lines) {
				b = t.lines[diffAt]
			}
			dim := ""
			if cfg.IndexType != base.IndexType {
				dim += "index "
			}
			if cfg.ShardNum != base.ShardNum {
				dim += "shards "
			}
			if cfg.FileIO != base.FileIO {
				dim += "io "
			}
			res.Violate(fmt.Sprintf("transcripts differ at line %d between %s and %s:\n  base : %.300s\n  other: %.300s", diffAt, base, cfg, a, b),
				map[string]string{"class": "config-dependence", "kind": "transcript", "index": fmt.Sprint(cfg.IndexType), "io": fmt.Sprint(cfg.FileIO), "reuse": fmt.Sprint(cc.Reuse)},
				map[string]any{"base": base, "other": cfg, "differs_in": dim, "reuse_buffers": cc.Reuse, "ops": firstN(logl, 80)})
			return res
		}
		if cc.NoBatch && cfg.DataFileSize == base.DataFileSize {
			res.Add("file_sets_compared", 1)
			if fmt.Sprint(t.files) != fmt.Sprint(ref.files) {
				res.Violate(fmt.Sprintf("data files differ between %s and %s: %v vs %v", base, cfg, ref.files, t.files),
					map[string]string{"class": "config-dependence", "kind": "file-bytes", "io": fmt.Sprint(cfg.FileIO)}, map[string]any{"ops": firstN(logl, 80)})
				return res
			}
		}
		w.Clean()
	}
	res.Nontrivial = res.Counters["iterator_walks"] > 0 && len(cfgs) >= 4
	res.Hash = core.HashBytes([]byte(fmt.Sprint(logl)), []byte(fmt.Sprint(cfgs)))
	if c.Index < 2 {
		res.Sample = map[string]any{"ops": firstN(logl, 30), "configs": cfgs, "transcript_head": firstN(ref.lines, 12), "reuse_buffers": cc.Reuse}
	}
	return res
}
