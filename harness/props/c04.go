package props

import (
	"fmt"
	"time"

	"verif/harness/core"
	"verif/harness/mon"
)

// C04 — a batch is all-or-nothing and, once committed, durable.
type c04 struct{}

func init() { core.Register(c04{}) }

func (c04) ID() string    { return "C04" }
func (c04) Level() string { return "fault_enumeration" }
func (c04) Rule() string {
	return "cases = workloads of batches (1..60 staged puts/deletes with repeats, values up to 2 blocks, every 3rd batch larger than DataFileSize so that it is flushed in pieces across files, Sync and non-Sync) between plain writes; crash images (process death, partial write, power loss; machinery of C03) are taken at every hooked I/O event and at the named points commit.afterFlush/commit.afterSeal while a batch is in flight and during the operation following it; a reopened image must dump to the state before or after the whole batch (atomicity), and must stay correct when it is used further (put, another committed batch, Sync, clean restart, second crash: the records of a batch that died must never come back), power-loss images taken after a Sync batch returned must contain it (d computed from durable offsets incl. the sealing record); after the crash phase the history continues with 3 clean restarts, further writes and a merge, each followed by a full dump vs model (durability). Non-trivial: >=1 batch flushed in >=2 writes and >=30 images; distinct = hash of (config, op list) Every second continuation starts with Merge + adopting restart (remnants of an unsealed batch must not return through the rewrite), and every fourth case writes each key exactly once before its first batch (no garbage at all, reclaimable counter zero)."
}
func (c04) Assumptions() []string {
	return []string{"same image model as C03", "the issuing goroutine calls only Batch methods while the batch is open"}
}
func (c04) Required() []string {
	return []string{"images_process_death", "images_partial_write", "images_power_loss", "batches_multi_flush", "batches_sync", "restarts", "point"}
}

func (c04) CaseBudget(tier string) time.Duration {
	// measured: the heaviest thorough case needs ~12 min of one worker on an idle machine and
	// more than 15 under load; a watchdog firing is only ever inconclusive or a reproduced hang
	if tier == "thorough" {
		return 3600 * time.Second
	}
	return 900 * time.Second
}

func (c04) Cases(tier string, seed uint64) []core.Case {
	n := 16
	if tier == "thorough" {
		n = 320
	}
	r := core.NewRng(core.Mix(seed, 0xC04))
	var out []core.Case
	for i := 0; i < n; i++ {
		sm := core.SyncModes[(i/2)%len(core.SyncModes)]
		cfg := core.Config{IndexType: core.IndexTypes[i%3], ShardNum: core.ShardNums[r.Intn(5)], FileIO: byte(i % 2),
			DataFileSize: []int64{4 << 10, 40 << 10, 64 << 10}[r.Intn(3)], Sync: sm.S, BytesPerSync: sm.B}
		out = append(out, core.Case{Index: i, ID: fmt.Sprintf("c04-%04d", i), Seed: r.U64(), Data: c03Case{Cfg: cfg, NOps: r.Range(10, 22)}})
	}
	return out
}

// bigBatch builds a batch whose total size exceeds the file-size limit k times.
func bigBatch(r *core.Rng, g *core.Gen, limit int64) core.Op {
	op := core.Op{Kind: "batch", BSync: r.Chance(1, 2)}
	target := limit * int64(r.Range(1, 4))
	var total int64
	for total < target+limit/2 && len(op.Sub) < 400 {
		k := g.Key()
		vl := r.Range(100, int(limit/3)+200)
		if vl > 60<<10 {
			vl = 60 << 10
		}
		switch c := r.Intn(10); {
		case c < 7:
			op.Sub = append(op.Sub, core.Op{Kind: "put", Key: k, VLen: vl, VSeed: r.U64()})
			total += int64(vl)
		case c < 9:
			op.Sub = append(op.Sub, core.Op{Kind: "del", Key: k})
		default:
			op.Sub = append(op.Sub, core.Op{Kind: "get", Key: k})
		}
	}
	return op
}

func (c04) Run(c core.Case, w *core.Worker) core.Result {
	cc := c.Data.(c03Case)
	res := core.Result{}
	r := core.NewRng(c.Seed)
	cr, io := newCrashRun(w, &res, cc.Cfg, r, "C04")
	defer io.Install()()
	s := core.NewSession(cr.dbDir(), cc.Cfg, &res)
	s.IO = io
	cr.log = func() []string { return s.Log }
	keys := core.GenKeys(r, r.Range(3, 7))
	for _, k := range keys {
		cr.ever[string(k)] = true
	}
	cr.ever["~after-crash"] = true
	g := &core.Gen{R: r, Keys: keys, Cfg: cc.Cfg, EndOff: io.ActiveEnd, NoMerge: true, NoRestart: true, MaxVal: 66 << 10}
	focus := false
	cr.filter = func(ev mon.Event) bool { return focus }
	cr.enabled = true
	if !s.Open() {
		return res
	}
	nb := 0
	noGarbage := c.Index%4 == 3
	if noGarbage {
		// a history without any garbage: every key written exactly once, no deletes, until the
		// first batch starts (images inside that batch are recovered into a directory whose
		// reclaimable counter is exactly zero)
		for _, k := range keys {
			if !cr.runMut(s, core.Op{Kind: "put", Key: k, VLen: r.Range(1, 400), VSeed: r.U64() | 1}) {
				break
			}
		}
		res.Add("cases_without_garbage_before_first_batch", 1)
	}
	for i := 0; i < cc.NOps && !s.Dead && res.Verdict != "violated"; i++ {
		var op core.Op
		switch {
		case noGarbage && nb == 0 && i%3 != 1:
			k := []byte(fmt.Sprintf("fresh%03d", i))
			cr.ever[string(k)] = true
			op = core.Op{Kind: "put", Key: k, VLen: r.Range(1, 400), VSeed: r.U64() | 1}
		case i%3 == 1:
			nb++
			if nb%3 == 0 {
				op = bigBatch(r, g, cc.Cfg.DataFileSize)
			} else {
				op = g.Batch()
				if r.Chance(1, 3) {
					// heavy repetition on one key
					k := g.Key()
					for j := 0; j < 4; j++ {
						if r.Chance(1, 2) {
							op.Sub = append(op.Sub, core.Op{Kind: "put", Key: k, VLen: r.Range(0, 300), VSeed: r.U64()})
						} else {
							op.Sub = append(op.Sub, core.Op{Kind: "del", Key: k})
						}
					}
				}
			}
		default:
			if r.Chance(1, 2) {
				op = g.Put()
			} else {
				op = core.Op{Kind: "del", Key: g.Key()}
			}
		}
		wasFocus := focus
		if op.Kind == "batch" {
			focus = true
			if op.BSync {
				res.Add("batches_sync", 1)
			}
		}
		w0 := res.Counters["io.write"]
		if !cr.runMut(s, op) {
			break
		}
		if op.Kind == "batch" {
			if res.Counters["io.write"]-w0 >= 3 {
				res.Add("batches_multi_flush", 1)
			}
		} else if wasFocus {
			focus = false
		}
	}
	cr.enabled = false
	// durability across later history: restarts, further writes, merge
	for k := 0; k < 3 && !s.Dead && s.DB != nil; k++ {
		s.Exec(core.Op{Kind: "restart"})
		if s.Dead {
			break
		}
		s.Exec(g.Put())
		s.Exec(g.Batch())
		if k == 1 {
			s.Exec(core.Op{Kind: "merge"})
			s.Exec(core.Op{Kind: "restart"})
		}
	}
	if s.DB != nil && !s.Dead {
		s.Exec(core.Op{Kind: "restart"})
		s.Close()
	}
	n := res.Counters["images_process_death"] + res.Counters["images_partial_write"] + res.Counters["images_power_loss"]
	res.Nontrivial = res.Counters["batches_multi_flush"] > 0 && n >= 30
	res.Hash = core.HashBytes([]byte(cc.Cfg.String()), []byte(fmt.Sprint(s.Log)))
	res.SetAdd("config", cc.Cfg.String())
	if c.Index < 2 {
		res.Sample = map[string]any{"config": cc.Cfg, "ops": firstN(s.Log, 12), "total_ops": len(s.Log), "images": n}
	}
	return res
}
