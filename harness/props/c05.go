package props

import (
	"bytes"
	"errors"
	"fmt"
	"time"

	kv "github.com/XiXi-2024/xixi-kv"
	"github.com/cespare/xxhash"
	"verif/harness/core"
	"verif/harness/mon"
)

// C05 — batch staging semantics: read-your-writes, in-order application.
type c05 struct{}

func init() { core.Register(c05{}) }

func (c05) ID() string    { return "C05" }
func (c05) Level() string { return "exploration" }
func (c05) Rule() string {
	return "cases = (configuration, pre-history, batch list): a pre-history with a small DataFileSize spreads keys over >=3 rotated files and the active file (some written by earlier batches, some deleted); then 6..30 batches with heavy key repetition (put-put, put-delete, delete-put, put-delete-put, delete of DB-only keys, empty batches, batches overflowing DataFileSize mid-way); in every second case the caller recycles one key buffer and one value buffer for all Batch calls and overwrites them after each return. After EVERY staged call Batch.Get of the touched key and of two other keys (rotated-file keys, never-written keys) is compared with the layered model (own latest staged op, else database value); after Commit the full dump is compared with in-order application; every committed batch (also the empty one) must reject Put/Delete/Get/Commit with ErrBatchCommitted without changing state, and a plain Put from another goroutine must then complete (lock released exactly once; a double unlock kills the worker and is reported as process death). Non-trivial: >=1 Batch.Get answered from a rotated file, >=1 put-after-delete of a key in one batch, >=1 overflowing batch; distinct = hash of (config, op log) A further family commits ONE batch of 1 Ki..140 K staged records (counts at and around powers of two and round numbers; with and without size-triggered flushes on the way), samples Batch.Get while staging, compares a full dump after Commit and after two clean restarts."
}
func (c05) Assumptions() []string {
	return []string{"layered reference model", "the issuing goroutine calls only Batch methods while the batch is open (NewBatch holds the database lock by design)"}
}
func (c05) Required() []string {
	return []string{"batch_gets", "batch_gets_rotated_file", "put_after_delete", "batches_overflow", "post_commit_rejections", "empty_batches", "lock_released_checks", "large_batches"}
}

func (c05) Cases(tier string, seed uint64) []core.Case {
	n := 400
	if tier == "thorough" {
		n = 120000
	}
	r := core.NewRng(core.Mix(seed, 0xC05))
	var out []core.Case
	for i := 0; i < n; i++ {
		cfg := core.RandConfig(r)
		cfg.IndexType = core.IndexTypes[i%3]
		cfg.FileIO = byte((i / 3) % 2)
		cfg.DataFileSize = []int64{4 << 10, 8 << 10, 40 << 10}[r.Intn(3)]
		out = append(out, core.Case{Index: i, ID: fmt.Sprintf("c05-%05d", i), Seed: r.U64(), Data: seqCase{Cfg: cfg, NOps: r.Range(6, 30), NKeys: r.Range(4, 10)}})
	}
	// very large batches: record counts at and around powers of two and round numbers (where
	// count-gated paths switch on), without and with size-triggered flushes in between
	nl := 10
	if tier == "thorough" {
		nl = 200
	}
	counts := []int{1 << 16, 1<<16 - 1, 1<<16 + 1, 1 << 12, 1 << 15, 1 << 17, 100000, 1 << 10, 50000, 1 << 14}
	for j := 0; j < nl; j++ {
		n := counts[j%len(counts)]
		if j >= len(counts) {
			switch (j / len(counts)) % 3 {
			case 0:
				n += r.Range(-2, 2)
			case 1:
				n = r.Range(1000, 140000)
			}
		}
		cfg := core.Config{IndexType: core.IndexTypes[j%3], ShardNum: []int{16, 1, 64}[(j/3)%3], FileIO: byte((j / 2) % 2), DataFileSize: []int64{256 << 20, 64 << 10, 1 << 20, 8 << 10}[j%4]}
		out = append(out, core.Case{Index: len(out), ID: fmt.Sprintf("c05-large-%04d", j), Seed: r.U64(), Data: seqCase{Cfg: cfg, NOps: -n}})
	}
	return out
}

// runLargeBatch: one batch staging n records (distinct fresh keys, a few overwrites and deletes
// of existing keys), read-your-writes samples while staging, Commit, live comparison, a clean
// restart and a full dump.
func runLargeBatch(c core.Case, sc seqCase, w *core.Worker) core.Result {
	res := core.Result{}
	n := -sc.NOps
	s := core.NewSession(w.Dir("lb"), sc.Cfg, &res)
	s.NoStates = true
	if !s.Open() {
		return res
	}
	r := core.NewRng(c.Seed)
	feat := map[string]string{"class": "large-batch", "io": fmt.Sprint(sc.Cfg.FileIO), "index": fmt.Sprint(sc.Cfg.IndexType)}
	fail := func(msg string) {
		res.Violate(msg, feat, map[string]any{"config": sc.Cfg, "staged_records": n})
		s.Dead = true
	}
	var old [][]byte
	for i := 0; i < 40; i++ {
		k := []byte(fmt.Sprintf("old%02d", i))
		old = append(old, k)
		s.Exec(core.Op{Kind: "put", Key: k, VLen: r.Range(1, 50), VSeed: r.U64() | 1})
	}
	pv, st := core.Safe(func() {
		b := s.DB.NewBatch(kv.BatchOptions{})
		staged := 0
		seen := map[string]bool{}
		var recent [][]byte
		stage := func(k, v []byte, del bool) {
			var err error
			if del {
				err = b.Delete(k)
				s.M.Delete(k)
			} else {
				err = b.Put(k, v)
				s.M.Put(k, v)
			}
			if err != nil {
				fail(fmt.Sprintf("staging record #%d failed: %v", staged, err))
			}
			if !seen[string(k)] {
				seen[string(k)] = true
				staged++ // a repeated key replaces its staged record
			}
		}
		for i := 0; staged < n && !s.Dead; i++ {
			switch {
			case i%5000 == 77:
				stage(old[r.Intn(len(old))], core.FillValue(r.U64()|1, r.Range(0, 30)), false)
			case i%5000 == 99:
				k := old[r.Intn(len(old))]
				if _, ok := s.M.Get(k); ok || seen[string(k)] {
					stage(k, nil, true)
				}
			case i%17 == 5 && len(recent) > 0:
				// come back to a key staged a little earlier in this batch (possibly before
				// the last automatic flush): replace it, delete it, or read it
				k := recent[r.Intn(len(recent))]
				switch r.Intn(3) {
				case 0:
					stage(k, core.FillValue(r.U64()|1, r.Range(0, 9)), false)
				case 1:
					if _, ok := s.M.Get(k); ok {
						stage(k, nil, true)
					}
				default:
					want, ok := s.M.Get(k)
					got, err := b.Get(k)
					res.Add("batch_gets", 1)
					if ok != (err == nil) || (ok && !bytes.Equal(got, want)) {
						fail(fmt.Sprintf("Batch.Get(%s) of a key staged earlier in this batch: len %d err=%v, overlay model: present=%v len %d", k, len(got), err, ok, len(want)))
					}
				}
				res.Add("revisits_of_staged_keys", 1)
			default:
				k := []byte(fmt.Sprintf("b%07x", core.Mix(uint64(i), c.Seed)>>36))
				stage(k, core.FillValue(r.U64()|1, r.Range(0, 6)), false)
				if len(recent) < 300 {
					recent = append(recent, k)
				} else {
					recent[i%300] = k
				}
			}
			if i%4001 == 4000 && !s.Dead {
				// read-your-writes in the middle of staging
				k := []byte(fmt.Sprintf("b%07x", core.Mix(uint64(r.Intn(i)), c.Seed)>>36))
				want, ok := s.M.Get(k)
				got, err := b.Get(k)
				res.Add("batch_gets", 1)
				if ok != (err == nil) || (ok && !bytes.Equal(got, want)) {
					fail(fmt.Sprintf("Batch.Get(%s) while %d records are staged: len %d err=%v, overlay model: present=%v len %d", k, staged, len(got), err, ok, len(want)))
				}
			}
		}
		res.Add("records_staged_in_large_batches", int64(staged))
		if err := b.Commit(); err != nil && !s.Dead {
			fail("Commit of a large batch failed: " + err.Error())
		}
	})
	if pv != nil {
		res.Violate(fmt.Sprintf("large batch panicked: %v", pv), feat, st)
		return res
	}
	if !s.Dead {
		s.CheckDump("after Commit of a large batch")
	}
	if !s.Dead {
		s.Exec(core.Op{Kind: "restart"})
	}
	if !s.Dead {
		s.Exec(core.Op{Kind: "put", Key: []byte("after"), VLen: 10, VSeed: 1})
		s.Exec(core.Op{Kind: "restart"})
	}
	if s.DB != nil {
		s.Close()
	}
	res.Add("large_batches", 1)
	for _, k := range []string{"batch_gets_rotated_file", "put_after_delete", "batches_overflow", "post_commit_rejections", "empty_batches", "lock_released_checks"} {
		res.Add(k, 0)
	}
	res.Nontrivial = res.Counters["restarts"] >= 2
	res.Hash = core.HashBytes([]byte(fmt.Sprint("large-batch", sc.Cfg, n, c.Seed)))
	if c.Index%40 == 0 {
		res.Sample = map[string]any{"kind": "large-batch", "config": sc.Cfg, "staged_records": n}
	}
	return res
}

type stagedOp struct {
	del bool
	v   []byte
}

func (c05) Run(c core.Case, w *core.Worker) core.Result {
	sc := c.Data.(seqCase)
	if sc.NOps < 0 {
		return runLargeBatch(c, sc, w)
	}
	res := core.Result{}
	dir := w.Dir("db")
	io := mon.NewIOLog()
	ioObserver(io, dir, &res)
	defer io.Install()()
	s := core.NewSession(dir, sc.Cfg, &res)
	s.IO = io
	r := core.NewRng(c.Seed)
	keys := core.GenKeys(r, sc.NKeys)
	reuse := c.Index%2 == 1 // the caller recycles one key buffer and one value buffer for every Batch call
	if reuse {
		res.Add("cases_reusing_buffers", 1)
	}
	if c.Index%4 == 2 {
		// two distinct 16-byte keys with the same xxhash64 (the batch's staging index and the
		// sharded index are keyed by that hash): constructed, verified with the real hash
		if a, b, ok := collidingKeys(r); ok {
			keys = append(keys, a, b)
			res.Add("cases_with_hash_colliding_keys", 1)
		}
	}
	never := [][]byte{[]byte("~never1"), []byte("~never2")}
	g := &core.Gen{R: r, Keys: keys, Cfg: sc.Cfg, NoMerge: true, NoRestart: true, EndOff: io.ActiveEnd, MaxVal: int(sc.Cfg.DataFileSize) / 2}
	if !s.Open() {
		return res
	}
	// pre-history: spread keys over several files
	fileOf := map[string]string{}
	for i := 0; (i < 60 || res.Counters["rotations"] < 3) && i < 400 && !s.Dead; i++ {
		op := g.Next()
		if !s.Exec(op) {
			return res
		}
		if op.Kind == "put" {
			fileOf[string(op.Key)] = io.ActivePath()
		}
		if op.Kind == "batch" {
			for _, so := range op.Sub {
				if so.Kind == "put" {
					fileOf[string(so.Key)] = "?"
				}
			}
		}
	}
	for nb := 0; nb < sc.NOps && !s.Dead && res.Verdict != "violated"; nb++ {
		runC05Batch(s, &res, r, g, keys, never, io, fileOf, sc.Cfg, reuse)
	}
	if !s.Dead {
		s.Exec(core.Op{Kind: "restart"})
	}
	if s.DB != nil {
		s.Close()
	}
	res.Nontrivial = res.Counters["batch_gets_rotated_file"] > 0 && res.Counters["put_after_delete"] > 0 && res.Counters["batches_overflow"] > 0
	res.Hash = core.HashBytes([]byte(sc.Cfg.String()), []byte(fmt.Sprint(s.Log)))
	if c.Index < 2 {
		res.Sample = map[string]any{"config": sc.Cfg, "ops_tail": lastN(s.Log, 25), "total_ops": len(s.Log)}
	}
	return res
}

func runC05Batch(s *core.Session, res *core.Result, r *core.Rng, g *core.Gen, keys, never [][]byte, io *mon.IOLog, fileOf map[string]string, cfg core.Config, reuse bool) {
	s.Step++
	feat := func(call string) map[string]string {
		return map[string]string{"class": "wrong-result", "call": call, "io": fmt.Sprint(cfg.FileIO), "index": fmt.Sprint(cfg.IndexType)}
	}
	var logl []string
	fail := func(call, msg string) {
		res.Violate(fmt.Sprintf("step %d: %s", s.Step, msg), feat(call), map[string]any{"config": cfg, "batch": logl, "history_tail": lastN(s.Log, 20)})
		s.Dead = true
	}
	overlay := map[string]*stagedOp{}
	type ord struct {
		k   []byte
		del bool
		v   []byte
	}
	var order []ord
	nops := r.Range(0, 14)
	style := r.Intn(6)
	if style == 0 {
		nops = 0 // empty batch
	}
	overflow := style == 1
	if overflow {
		nops = r.Range(8, 40)
	}
	active := io.ActivePath()
	writes0 := res.Counters["io.write"]
	var kbuf, vbuf []byte
	kb := func(k []byte) []byte {
		if !reuse {
			return k
		}
		kbuf = append(kbuf[:0], k...)
		return kbuf
	}
	vb := func(v []byte) []byte {
		if !reuse {
			return v
		}
		vbuf = append(vbuf[:0], v...)
		return vbuf
	}
	scribble := func() {
		for i := range kbuf[:cap(kbuf)] {
			kbuf[:cap(kbuf)][i] = 0xC3
		}
		for i := range vbuf[:cap(vbuf)] {
			vbuf[:cap(vbuf)][i] = 0x3C
		}
	}
	pv, st := core.Safe(func() {
		b := s.DB.NewBatch(kv.BatchOptions{Sync: r.Chance(1, 5)})
		hot := g.Key()
		check := func(k []byte) bool {
			v, err := b.Get(kb(k))
			v = append([]byte(nil), v...)
			scribble()
			res.Add("batch_gets", 1)
			res.Add("compared_calls", 1)
			var want []byte
			present := false
			if e, ok := overlay[string(k)]; ok {
				if !e.del {
					want, present = e.v, true
				}
				res.Add("batch_gets_staged", 1)
			} else {
				want, present = s.M.Get(k)
				if present {
					if f := fileOf[string(k)]; f != "" && f != active {
						res.Add("batch_gets_rotated_file", 1)
					}
				}
			}
			if !present {
				if !errors.Is(err, kv.ErrKeyNotFound) {
					fail("Batch.Get", fmt.Sprintf("Batch.Get(%q) = len %d, err=%v; layered model: not found", k, len(v), err))
					return false
				}
			} else if err != nil || !bytes.Equal(v, want) {
				fail("Batch.Get", fmt.Sprintf("Batch.Get(%q) = len %d h=%s err=%v; layered model: len %d h=%s", k, len(v), core.HashBytes(v)[:8], err, len(want), core.HashBytes(want)[:8]))
				return false
			}
			return true
		}
		for i := 0; i < nops && !s.Dead; i++ {
			k := g.Key()
			if r.Chance(1, 2) {
				k = hot
			}
			if r.Chance(1, 2) {
				vl := r.Range(0, 400)
				if overflow {
					vl = r.Range(int(cfg.DataFileSize)/8, int(cfg.DataFileSize)/2)
				}
				v := core.FillValue(r.U64(), vl)
				logl = append(logl, fmt.Sprintf("put(%q,len=%d)", k, vl))
				if e, ok := overlay[string(k)]; ok && e.del {
					res.Add("put_after_delete", 1)
				}
				perr := b.Put(kb(k), vb(v))
				scribble()
				if err := perr; err != nil {
					fail("Batch.Put", fmt.Sprintf("Batch.Put(%q) error %v", k, err))
					break
				}
				overlay[string(k)] = &stagedOp{v: v}
				order = append(order, ord{k, false, v})
			} else {
				logl = append(logl, fmt.Sprintf("del(%q)", k))
				if _, inDB := s.M.Get(k); inDB {
					if _, staged := overlay[string(k)]; !staged {
						res.Add("delete_db_only_key", 1)
					}
				}
				derr := b.Delete(kb(k))
				scribble()
				if err := derr; err != nil {
					fail("Batch.Delete", fmt.Sprintf("Batch.Delete(%q) error %v", k, err))
					break
				}
				overlay[string(k)] = &stagedOp{del: true}
				order = append(order, ord{k, true, nil})
			}
			if !check(k) || !check(keys[r.Intn(len(keys))]) || !check(never[r.Intn(2)]) {
				break
			}
		}
		if s.Dead {
			// release the lock so the session can be torn down
			b.Commit()
			return
		}
		logl = append(logl, "commit")
		if err := b.Commit(); err != nil {
			fail("Commit", fmt.Sprintf("Commit error %v", err))
			return
		}
		if nops == 0 {
			res.Add("empty_batches", 1)
		}
		// a committed batch rejects further use
		k := g.Key()
		if err := b.Put(k, []byte("x")); !errors.Is(err, kv.ErrBatchCommitted) {
			fail("post-commit", fmt.Sprintf("Put on a committed batch returned %v, want ErrBatchCommitted", err))
			return
		}
		if err := b.Delete(k); !errors.Is(err, kv.ErrBatchCommitted) {
			fail("post-commit", fmt.Sprintf("Delete on a committed batch returned %v, want ErrBatchCommitted", err))
			return
		}
		if _, err := b.Get(k); !errors.Is(err, kv.ErrBatchCommitted) {
			fail("post-commit", fmt.Sprintf("Get on a committed batch returned %v, want ErrBatchCommitted", err))
			return
		}
		if err := b.Commit(); !errors.Is(err, kv.ErrBatchCommitted) {
			fail("post-commit", fmt.Sprintf("second Commit returned %v, want ErrBatchCommitted", err))
			return
		}
		res.Add("post_commit_rejections", 4)
	})
	if pv != nil {
		res.Violate(fmt.Sprintf("step %d: batch panicked: %v", s.Step, pv), map[string]string{"class": "panic", "call": "Batch"}, map[string]any{"batch": logl, "stack": st})
		s.Dead, s.Panicked = true, true
		return
	}
	if s.Dead {
		return
	}
	if overflow && res.Counters["io.write"]-writes0 >= 3 {
		res.Add("batches_overflow", 1)
	}
	for _, o := range order {
		if o.del {
			s.M.Delete(o.k)
		} else {
			s.M.Put(o.k, o.v)
			fileOf[string(o.k)] = "?"
		}
	}
	s.Log = append(s.Log, fmt.Sprintf("batch%v", logl))
	// the lock must have been released exactly once: another goroutine's Put completes
	done := make(chan error, 1)
	pk, pvv := g.Key(), core.FillValue(r.U64(), r.Range(0, 200))
	go func() { done <- s.DB.Put(pk, pvv) }()
	select {
	case err := <-done:
		if err != nil {
			fail("Put", fmt.Sprintf("plain Put after Commit failed: %v", err))
			return
		}
		s.M.Put(pk, pvv)
		fileOf[string(pk)] = io.ActivePath()
		res.Add("lock_released_checks", 1)
	case <-time.After(60 * time.Second):
		res.Violate(fmt.Sprintf("step %d: a plain Put from another goroutine did not complete 60 s after Commit returned: database lock not released", s.Step),
			map[string]string{"class": "lock-not-released"}, map[string]any{"batch": logl})
		s.Dead, s.Panicked = true, true
		return
	}
	s.CheckDump("after-commit")
}

// ---------------------------------------------------------------------------
// xxhash64 collisions for 16-byte inputs (seed 0). For inputs shorter than 32 bytes XXH64 is
//
//	h = P5 + len; for each 8-byte word w: h = rotl(h ^ round(w), 27)*P1 + P4; h = avalanche(h)
//
// with round(w) = rotl(w*P2, 31)*P1. Every step is a bijection on 64 bits, so for arbitrary
// first words w1 != w1' and second word w2, solving round(w2') = h1 ^ h1' ^ round(w2) for w2'
// yields two different keys with equal hash.
const (
	xxP1 = 11400714785074694791
	xxP2 = 14029467366897019727
	xxP4 = 9650029242287828579
	xxP5 = 2870177450012600261
)

func rotl(x uint64, r uint) uint64 { return x<<r | x>>(64-r) }
func rotr(x uint64, r uint) uint64 { return x>>r | x<<(64-r) }
func inv64(a uint64) uint64 {
	x := a // a is odd
	for i := 0; i < 6; i++ {
		x *= 2 - a*x
	}
	return x
}
func xxRound(w uint64) uint64    { return rotl(w*xxP2, 31) * xxP1 }
func xxRoundInv(v uint64) uint64 { return rotr(v*inv64(xxP1), 31) * inv64(xxP2) }

func collidingKeys(r *core.Rng) ([]byte, []byte, bool) {
	le := func(b []byte, w uint64) {
		for i := 0; i < 8; i++ {
			b[i] = byte(w >> (8 * i))
		}
	}
	for try := 0; try < 8; try++ {
		w1, w1b, w2 := r.U64(), r.U64(), r.U64()
		h0 := uint64(xxP5 + 16)
		h1 := rotl(h0^xxRound(w1), 27)*xxP1 + xxP4
		h1b := rotl(h0^xxRound(w1b), 27)*xxP1 + xxP4
		w2b := xxRoundInv(h1 ^ h1b ^ xxRound(w2))
		a, b := make([]byte, 16), make([]byte, 16)
		le(a, w1)
		le(a[8:], w2)
		le(b, w1b)
		le(b[8:], w2b)
		if string(a) != string(b) && xxhash.Sum64(a) == xxhash.Sum64(b) {
			return a, b, true
		}
	}
	return nil, nil, false
}
