package props

import (
	"fmt"
	"os"
	"path/filepath"

	"verif/harness/core"
	"verif/harness/mon"
	"verif/harness/vfmt"
)

// C02 — clean restart preserves the mapping under any configuration pair.
type c02 struct{}

func init() { core.Register(c02{}) }

func (c02) ID() string    { return "C02" }
func (c02) Level() string { return "exploration" }
func (c02) Rule() string {
	return "two case kinds: (hist) generated histories (puts, deletes, batches incl. file-spanning ones, merges) with 1..6 restarts whose reader configuration (index, shards, I/O type, file-size limit) is drawn independently of the writer's; dump before Close must equal dump after Open and the model; (endoff) for each listed end offset e the harness fits a record so that the newest data file ends exactly at in-block offset e (verified from the I/O events), closes, reopens with the other I/O type, dumps, appends and restarts again. Non-trivial: hist case with >=1 restart under a changed configuration after >=1 rotation; endoff case whose observed end offset equals the target. distinct = hash of (kind, configs, op list | offset list)"
}
func (c02) Assumptions() []string {
	return []string{"reference map model", "unreachable end offsets (block 0: 1..11, later blocks: 1..7) are reported, not tested"}
}
func (c02) Required() []string {
	return []string{"restarts", "compared_calls", "endoff_checked", "restarts_changed_cfg"}
}
func (c02) Exhaustive(tier string) bool { return false }

type c02Case struct {
	Kind    string
	Cfg     core.Config
	NOps    int
	NKeys   int
	Offsets []int64 // absolute end offsets (endoff)
	IO      byte
}

func (c02) Cases(tier string, seed uint64) []core.Case {
	r := core.NewRng(core.Mix(seed, 0xC02))
	nh := 320
	if tier == "thorough" {
		nh = 24000
	}
	var out []core.Case
	cfgs := core.CoverConfigs(r, nh)
	for i := 0; i < nh; i++ {
		out = append(out, core.Case{Index: len(out), ID: fmt.Sprintf("c02-hist-%05d", i), Seed: r.U64(),
			Data: c02Case{Kind: "hist", Cfg: cfgs[i], NOps: r.Range(40, 260), NKeys: r.Range(3, 10)}})
	}
	// end-offset sweep
	var offs []int64
	if tier == "thorough" {
		for b := int64(0); b < 2; b++ {
			for e := int64(0); e < vfmt.Block; e++ {
				offs = append(offs, b*vfmt.Block+e)
			}
		}
		offs = append(offs, 2*vfmt.Block)
	} else {
		seen := map[int64]bool{}
		add := func(o int64) {
			if o > 0 && !seen[o] {
				seen[o] = true
				offs = append(offs, o)
			}
		}
		for b := int64(0); b < 2; b++ {
			for d := int64(-16); d <= 16; d++ {
				add((b+1)*vfmt.Block + d)
			}
			for d := int64(0); d <= 40; d++ {
				add(b*vfmt.Block + d)
			}
		}
		for i := 0; i < 512; i++ {
			add(int64(r.Range(12, 2*vfmt.Block)))
		}
	}
	const per = 128
	for io := byte(0); io < 2; io++ {
		for i := 0; i < len(offs); i += per {
			j := i + per
			if j > len(offs) {
				j = len(offs)
			}
			out = append(out, core.Case{Index: len(out), ID: fmt.Sprintf("c02-endoff-io%d-%05d", io, i), Seed: r.U64(),
				Data: c02Case{Kind: "endoff", Offsets: offs[i:j], IO: io}})
		}
	}
	return out
}

func readerCfg(base core.Config) func(r *core.Rng) *core.Config {
	return func(r *core.Rng) *core.Config {
		c := core.RandConfig(r)
		c.MergeRatio = base.MergeRatio
		if r.Chance(1, 4) {
			c.DataFileSize = base.DataFileSize
		}
		return &c
	}
}

func (c02) Run(c core.Case, w *core.Worker) core.Result {
	cc := c.Data.(c02Case)
	if cc.Kind == "endoff" {
		return runEndOff(c, cc, w)
	}
	res := core.Result{}
	dir := w.Dir("db")
	if c.Index%4 == 2 {
		// a directory (and a parent directory) named with glob / format / shell metacharacters
		dir = filepath.Join(w.Dir(core.HostileName(c.Index/4)), core.HostileName(c.Index/4+5))
		os.MkdirAll(filepath.Dir(dir), 0755)
		res.Add("cases_with_metacharacters_in_the_path", 1)
	}
	io := mon.NewIOLog()
	ioObserver(io, dir, &res)
	defer io.Install()()
	s := core.NewSession(dir, cc.Cfg, &res)
	s.Spell = c.Index%2 == 1
	s.IO = io
	r := core.NewRng(c.Seed)
	g := &core.Gen{R: r, Keys: core.GenKeys(r, cc.NKeys), Cfg: cc.Cfg, EndOff: io.ActiveEnd, RestartCfg: readerCfg(cc.Cfg)}
	if !s.Open() {
		return res
	}
	changed := 0
	nrest := r.Range(1, 6)
	restartAt := map[int]bool{}
	for i := 0; i < nrest; i++ {
		restartAt[r.Range(5, cc.NOps-1)] = true
	}
	for i := 0; i < cc.NOps && !s.Dead; i++ {
		var op core.Op
		if restartAt[i] {
			op = core.Op{Kind: "restart", Cfg: g.RestartCfg(r)}
		} else {
			op = g.Next()
		}
		if op.Kind == "restart" {
			if op.Cfg != nil && *op.Cfg != s.Cfg {
				changed++
				res.Add("restarts_changed_cfg", 1)
				if op.Cfg.FileIO != s.Cfg.FileIO {
					res.Add("restarts_changed_io", 1)
				}
				if op.Cfg.DataFileSize < s.Cfg.DataFileSize {
					res.Add("restarts_smaller_limit", 1)
				}
			}
			g.Cfg = *op.Cfg
		}
		if !s.Exec(op) {
			break
		}
		if op.Kind == "merge" && r.Chance(1, 2) {
			// merge followed by two restarts (adoption, then plain rescan)
			for k := 0; k < 2 && !s.Dead; k++ {
				s.Exec(core.Op{Kind: "restart", Cfg: g.RestartCfg(r)})
			}
			res.Add("merge_then_two_restarts", 1)
		}
	}
	if !s.Dead {
		s.Exec(core.Op{Kind: "restart"})
	}
	if s.DB != nil {
		s.Close()
	}
	res.Nontrivial = changed > 0 && res.Counters["rotations"] > 0
	res.Hash = core.HashBytes([]byte("hist"), []byte(cc.Cfg.String()), []byte(fmt.Sprint(s.Log)))
	if c.Index < 2 {
		res.Sample = map[string]any{"kind": "hist", "config": cc.Cfg, "ops": firstN(s.Log, 40), "total_ops": len(s.Log)}
	}
	return res
}

// fitVLen finds a value length such that a record with key length klen
// appended at file offset start ends exactly at target.
func fitVLen(start int64, klen int, target int64) (int, bool) {
	est := int(target-start) - klen - 11
	for est > 0 {
		_, end, _ := vfmt.Layout(start, vfmt.EncodedLen(klen, est, 0))
		if end <= target {
			break
		}
		est -= int(end-target) + 1
	}
	if est < 0 {
		est = 0
	}
	for v := est; v < est+80; v++ {
		_, end, _ := vfmt.Layout(start, vfmt.EncodedLen(klen, v, 0))
		if end == target {
			return v, true
		}
		if end > target+16 {
			break
		}
	}
	return 0, false
}

func runEndOff(c core.Case, cc c02Case, w *core.Worker) core.Result {
	res := core.Result{}
	io := mon.NewIOLog()
	defer io.Install()()
	r := core.NewRng(c.Seed)
	hit := 0
	var sampleLog []string
	for _, target := range cc.Offsets {
		dir := w.Dir("eo")
		io.Track = dir
		cfg := core.Config{IndexType: core.IndexTypes[r.Intn(3)], ShardNum: core.ShardNums[r.Intn(5)], FileIO: cc.IO, DataFileSize: 1 << 20}
		s := core.NewSession(dir, cfg, &res)
		s.IO = io
		s.Extra = map[string]string{"endoff_inblock": fmt.Sprint(target % vfmt.Block)}
		if !s.Open() {
			continue
		}
		// first record: small, only when there is room for two records
		start := int64(0)
		if target >= 64 {
			op := core.Op{Kind: "put", Key: []byte("a"), VLen: r.Range(0, 20), VSeed: r.U64()}
			if !s.Exec(op) {
				continue
			}
			start = io.ActiveEnd()
		}
		fitted := false
		for _, klen := range []int{1, 2, 3, 4} {
			if v, ok := fitVLen(start, klen, target); ok {
				key := []byte("kkkk")[:klen]
				if !s.Exec(core.Op{Kind: "put", Key: key, VLen: v, VSeed: r.U64()}) {
					break
				}
				fitted = true
				break
			}
		}
		if !fitted {
			res.Add("endoff_unreachable", 1)
			res.SetAdd("unreachable_inblock", fmt.Sprintf("b%d+%d", target/vfmt.Block, target%vfmt.Block))
			s.Close()
			w.Clean()
			continue
		}
		if s.Dead {
			continue
		}
		if got := io.ActiveEnd(); got != target {
			res.Violate(fmt.Sprintf("harness: fitted record ended at %d, wanted %d", got, target), map[string]string{"class": "harness"}, nil)
			s.Close()
			continue
		}
		hit++
		// restart with the other I/O type, then back
		other := cfg
		other.FileIO = 1 - cfg.FileIO
		other.IndexType = core.IndexTypes[r.Intn(3)]
		s.Exec(core.Op{Kind: "restart", Cfg: &other})
		if !s.Dead && hit%4 == 0 {
			// the directory must keep accepting writes after the reopen
			s.Exec(core.Op{Kind: "put", Key: []byte("z"), VLen: r.Range(0, 40), VSeed: r.U64()})
			s.Exec(core.Op{Kind: "restart", Cfg: &cfg})
		}
		if !s.Dead {
			res.Add("endoff_checked", 1)
			d := target % vfmt.Block
			if d >= vfmt.Block-7 {
				res.Add("endoff_in_padding_zone", 1)
			}
		}
		if len(sampleLog) == 0 {
			sampleLog = append([]string{fmt.Sprintf("target_end=%d", target)}, s.Log...)
		}
		s.Close()
		io.Forget(dir)
		w.Clean()
	}
	res.Nontrivial = hit > 0
	res.Hash = core.HashBytes([]byte("endoff"), []byte(fmt.Sprint(cc.IO, cc.Offsets)))
	if c.Index%50 == 0 {
		res.Sample = map[string]any{"kind": "endoff", "io": cc.IO, "offsets": len(cc.Offsets), "first": sampleLog}
	}
	return res
}
