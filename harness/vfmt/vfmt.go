// Package vfmt is the harness's own, independent decoder of the on-disk format
// of xixi-kv (written from the format description, not from the engine's
// reader): 32 KiB blocks, chunks = crc32(LE, IEEE, over len+type+payload) |
// len uint16 LE | type (0 full, 1 first, 2 middle, 3 last) | payload; a block
// tail of <= 7 bytes is zero padding; a log record payload is
// type | varint(klen) | varint(vlen) | uvarint(batch) | key | value.
package vfmt

import (
	"encoding/binary"
	"errors"
	"fmt"
	"hash/crc32"
	"os"
)

const (
	Block  = 32 * 1024
	Header = 7
)

const (
	Full   = 0
	First  = 1
	Middle = 2
	Last   = 3
)

const (
	RecNormal   = 0
	RecDeleted  = 1
	RecBatchFin = 2
)

// Raw is one framed record (before payload interpretation).
type Raw struct {
	Start   int64  // file offset of its first chunk header
	End     int64  // file offset just after its last chunk
	BlockID uint32 // Start / Block
	Off     uint32 // Start % Block
	Size    uint32 // chunk headers + payload bytes (padding excluded)
	Chunks  int
	Payload []byte
}

// Rec is a decoded log record.
type Rec struct {
	Raw
	Type    byte
	Key     []byte
	Value   []byte
	BatchID uint64
}

var (
	ErrTorn    = errors.New("vfmt: chunk extends past end of data")
	ErrCRC     = errors.New("vfmt: crc mismatch")
	ErrSeq     = errors.New("vfmt: bad chunk type sequence")
	ErrPayload = errors.New("vfmt: malformed record payload")
)

// ScanErr tells where a scan stopped.
type ScanErr struct {
	Off int64
	Err error
}

func (e *ScanErr) Error() string { return fmt.Sprintf("%v at offset %d", e.Err, e.Off) }
func (e *ScanErr) Unwrap() error { return e.Err }

// ScanRaw decodes all records of data whose first byte sits at file offset
// base (base is needed for block arithmetic when decoding an appended buffer).
// It returns the records decoded before the first problem; err is nil when
// the data ends exactly at a record boundary (trailing padding allowed).
// padding returns the number of padding bytes skipped.
func ScanRaw(data []byte, base int64) (recs []Raw, padding int64, err error) {
	pos := int64(0) // index into data
	n := int64(len(data))
	for {
		// padding rule
		inb := (base + pos) % Block
		if inb+Header >= Block && inb != 0 {
			skip := Block - inb
			if pos+skip > n {
				// file ends inside a would-be padding area: legal end of file
				// only if nothing but the end follows
				if pos == n {
					return recs, padding, nil
				}
				// bytes present in the padding area must be zero
				for _, b := range data[pos:n] {
					if b != 0 {
						return recs, padding, &ScanErr{base + pos, ErrCRC}
					}
				}
				padding += n - pos
				return recs, padding, nil
			}
			for _, b := range data[pos : pos+skip] {
				if b != 0 {
					return recs, padding, &ScanErr{base + pos, ErrCRC}
				}
			}
			padding += skip
			pos += skip
		}
		if pos >= n {
			return recs, padding, nil
		}
		r := Raw{Start: base + pos}
		r.BlockID = uint32(r.Start / Block)
		r.Off = uint32(r.Start % Block)
		expectFirst := true
		for {
			if pos+Header > n {
				return recs, padding, &ScanErr{base + pos, ErrTorn}
			}
			inb := (base + pos) % Block
			if inb+Header > Block {
				return recs, padding, &ScanErr{base + pos, ErrSeq}
			}
			l := int64(binary.LittleEndian.Uint16(data[pos+4 : pos+6]))
			typ := data[pos+6]
			if inb+Header+l > Block {
				return recs, padding, &ScanErr{base + pos, ErrCRC}
			}
			if pos+Header+l > n {
				return recs, padding, &ScanErr{base + pos, ErrTorn}
			}
			sum := crc32.ChecksumIEEE(data[pos+4 : pos+Header+l])
			if sum != binary.LittleEndian.Uint32(data[pos:pos+4]) {
				return recs, padding, &ScanErr{base + pos, ErrCRC}
			}
			if expectFirst && !(typ == Full || typ == First) {
				return recs, padding, &ScanErr{base + pos, ErrSeq}
			}
			if !expectFirst && !(typ == Middle || typ == Last) {
				return recs, padding, &ScanErr{base + pos, ErrSeq}
			}
			r.Payload = append(r.Payload, data[pos+Header:pos+Header+l]...)
			r.Chunks++
			r.Size += uint32(Header + l)
			pos += Header + l
			expectFirst = false
			if typ == Full || typ == Last {
				break
			}
			// a non-final chunk must end exactly at a block boundary
			if (base+pos)%Block != 0 {
				return recs, padding, &ScanErr{base + pos, ErrSeq}
			}
		}
		r.End = base + pos
		recs = append(recs, r)
	}
}

func svarint(b []byte) (int64, int) {
	return binary.Varint(b)
}

// DecodeRec interprets a raw record as a log record.
func DecodeRec(r Raw) (Rec, error) {
	p := r.Payload
	out := Rec{Raw: r}
	if len(p) < 4 {
		return out, ErrPayload
	}
	out.Type = p[0]
	i := 1
	kl, n := svarint(p[i:])
	if n <= 0 || kl < 0 {
		return out, ErrPayload
	}
	i += n
	vl, n := svarint(p[i:])
	if n <= 0 || vl < 0 {
		return out, ErrPayload
	}
	i += n
	bid, n := binary.Uvarint(p[i:])
	if n <= 0 {
		return out, ErrPayload
	}
	i += n
	if int64(i)+kl+vl != int64(len(p)) {
		return out, ErrPayload
	}
	out.BatchID = bid
	out.Key = p[i : i+int(kl)]
	out.Value = p[i+int(kl):]
	return out, nil
}

// Scan decodes a whole data file image.
func Scan(data []byte) ([]Rec, int64, error) {
	return ScanAt(data, 0)
}

func ScanAt(data []byte, base int64) ([]Rec, int64, error) {
	raws, pad, err := ScanRaw(data, base)
	out := make([]Rec, 0, len(raws))
	for _, r := range raws {
		rec, e := DecodeRec(r)
		if e != nil {
			return out, pad, &ScanErr{r.Start, e}
		}
		out = append(out, rec)
	}
	return out, pad, err
}

func ScanFile(path string) ([]Rec, int64, error) {
	b, err := os.ReadFile(path)
	if err != nil {
		return nil, 0, err
	}
	return Scan(b)
}

// Hint is a decoded hint-file entry.
type Hint struct {
	Raw
	Fid, BlockID, Off, Size uint32
	Key                     []byte
}

func DecodeHint(r Raw) (Hint, error) {
	p := r.Payload
	h := Hint{Raw: r}
	i := 0
	var vals [4]uint64
	for k := 0; k < 4; k++ {
		v, n := binary.Uvarint(p[i:])
		if n <= 0 {
			return h, ErrPayload
		}
		vals[k] = v
		i += n
	}
	h.Fid, h.BlockID, h.Off, h.Size = uint32(vals[0]), uint32(vals[1]), uint32(vals[2]), uint32(vals[3])
	h.Key = p[i:]
	return h, nil
}

func ScanHintFile(path string) ([]Hint, error) {
	b, err := os.ReadFile(path)
	if err != nil {
		return nil, err
	}
	raws, _, serr := ScanRaw(b, 0)
	out := make([]Hint, 0, len(raws))
	for _, r := range raws {
		h, e := DecodeHint(r)
		if e != nil {
			return out, e
		}
		out = append(out, h)
	}
	return out, serr
}

// RecordAt decodes the record that starts at (block, off) of data.
func RecordAt(data []byte, block, off uint32) (Rec, error) {
	start := int64(block)*Block + int64(off)
	if start >= int64(len(data)) {
		return Rec{}, &ScanErr{start, ErrTorn}
	}
	// decode only one record: scan from start and take the first
	raws, _, err := scanOne(data, start)
	if len(raws) == 0 {
		if err == nil {
			err = &ScanErr{start, ErrTorn}
		}
		return Rec{}, err
	}
	return DecodeRec(raws[0])
}

func scanOne(data []byte, start int64) ([]Raw, int64, error) {
	// reuse ScanRaw on the suffix but stop after one record: cheap variant
	pos := start
	n := int64(len(data))
	r := Raw{Start: start, BlockID: uint32(start / Block), Off: uint32(start % Block)}
	first := true
	for {
		if pos+Header > n {
			return nil, 0, &ScanErr{pos, ErrTorn}
		}
		inb := pos % Block
		l := int64(binary.LittleEndian.Uint16(data[pos+4 : pos+6]))
		typ := data[pos+6]
		if inb+Header+l > Block {
			return nil, 0, &ScanErr{pos, ErrCRC}
		}
		if pos+Header+l > n {
			return nil, 0, &ScanErr{pos, ErrTorn}
		}
		if crc32.ChecksumIEEE(data[pos+4:pos+Header+l]) != binary.LittleEndian.Uint32(data[pos:pos+4]) {
			return nil, 0, &ScanErr{pos, ErrCRC}
		}
		if first && !(typ == Full || typ == First) || !first && !(typ == Middle || typ == Last) {
			return nil, 0, &ScanErr{pos, ErrSeq}
		}
		first = false
		r.Payload = append(r.Payload, data[pos+Header:pos+Header+l]...)
		r.Chunks++
		r.Size += uint32(Header + l)
		pos += Header + l
		if typ == Full || typ == Last {
			break
		}
	}
	r.End = pos
	return []Raw{r}, 0, nil
}

// EncodedLen returns the payload length of a log record.
func EncodedLen(klen, vlen int, batch uint64) int {
	var tmp [binary.MaxVarintLen64]byte
	n := 1
	n += binary.PutVarint(tmp[:], int64(klen))
	n += binary.PutVarint(tmp[:], int64(vlen))
	n += binary.PutUvarint(tmp[:], batch)
	return n + klen + vlen
}

// Layout computes, for a payload of plen bytes appended at file offset off, the
// file offset where the record starts (after padding), where it ends, and the
// number of bytes it occupies (headers + payload).
func Layout(off int64, plen int) (start, end int64, size int64) {
	inb := off % Block
	if inb+Header >= Block && inb != 0 {
		off += Block - inb
	}
	start = off
	rem := int64(plen)
	pos := off
	for rem > 0 {
		inb := pos % Block
		room := Block - inb - Header
		w := rem
		if w > room {
			w = room
		}
		pos += Header + w
		size += Header + w
		rem -= w
	}
	return start, pos, size
}

// Chunk describes one chunk header position of a file image.
type Chunk struct {
	Off  int64 // offset of the chunk header
	Len  int
	Type byte
}

// ScanChunks lists the chunks of a well-formed file image.
func ScanChunks(data []byte) []Chunk {
	var out []Chunk
	pos := int64(0)
	n := int64(len(data))
	for pos+Header <= n {
		inb := pos % Block
		if inb+Header >= Block && inb != 0 {
			pos += Block - inb
			continue
		}
		l := int64(binary.LittleEndian.Uint16(data[pos+4 : pos+6]))
		if pos+Header+l > n || inb+Header+l > Block {
			break
		}
		if crc32.ChecksumIEEE(data[pos+4:pos+Header+l]) != binary.LittleEndian.Uint32(data[pos:pos+4]) {
			break
		}
		out = append(out, Chunk{Off: pos, Len: int(l), Type: data[pos+6]})
		pos += Header + l
	}
	return out
}

// ForgeValue returns a copy of value whose last four bytes are chosen so that the CRC stored
// in the chunk header of the record put(key, value) - written as ONE Full chunk, outside a
// batch - equals target. ok is false when the record cannot be a single chunk or the value
// is shorter than four bytes.
func ForgeValue(key, value []byte, target uint32) (out []byte, ok bool) {
	plen := EncodedLen(len(key), len(value), 0)
	if len(value) < 4 || plen > Block-Header {
		return value, false
	}
	// bytes covered by the CRC: length (2, LE), chunk type (Full), payload
	buf := make([]byte, 0, 3+plen)
	buf = append(buf, byte(plen), byte(plen>>8), Full)
	buf = append(buf, RecNormal)
	buf = binary.AppendVarint(buf, int64(len(key)))
	buf = binary.AppendVarint(buf, int64(len(value)))
	buf = binary.AppendUvarint(buf, 0)
	buf = append(buf, key...)
	buf = append(buf, value...)
	tab := crc32.IEEETable
	var rev [256]byte
	for i, t := range tab {
		rev[t>>24] = byte(i)
	}
	reg := ^crc32.ChecksumIEEE(buf[:len(buf)-4])
	want := ^target
	var idx [4]byte
	for i := 3; i >= 0; i-- {
		idx[i] = rev[want>>24]
		want = (want ^ tab[idx[i]]) << 8
	}
	out = append([]byte{}, value...)
	for i := 0; i < 4; i++ {
		out[len(out)-4+i] = byte(reg) ^ idx[i]
		reg = tab[idx[i]] ^ (reg >> 8)
	}
	copy(buf[len(buf)-4:], out[len(out)-4:])
	return out, crc32.ChecksumIEEE(buf) == target
}
