package core

import (
	"fmt"

	kv "github.com/XiXi-2024/xixi-kv"
)

// Config is the part of kv.Options the harness varies.
type Config struct {
	IndexType    int8    `json:"index"` // 1 btree 2 skiplist 3 hashmap
	ShardNum     int     `json:"shards"`
	FileIO       byte    `json:"io"` // 0 standard 1 mmap
	DataFileSize int64   `json:"dfs"`
	Sync         byte    `json:"sync"` // 0 no 1 always 2 threshold
	BytesPerSync uint    `json:"bps"`
	MergeRatio   float32 `json:"ratio"`
	BgMerge      bool    `json:"bgmerge,omitempty"` // EnableBackgroundMerge (timer-driven Merge once a second)
}

func (c Config) Options(dir string) kv.Options {
	return kv.Options{
		DirPath:            dir,
		DataFileSize:       c.DataFileSize,
		SyncStrategy:       kv.SyncStrategy(c.Sync),
		BytesPerSync:       c.BytesPerSync,
		IndexType:          c.IndexType,
		FileIOType:         c.FileIO,
		DataFileMergeRatio: c.MergeRatio,
		ShardNum:           c.ShardNum,

		EnableBackgroundMerge: c.BgMerge,
	}
}

func (c Config) String() string {
	return fmt.Sprintf("idx%d/sh%d/io%d/dfs%d/sync%d:%d", c.IndexType, c.ShardNum, c.FileIO, c.DataFileSize, c.Sync, c.BytesPerSync)
}

var (
	IndexTypes = []int8{1, 2, 3}
	ShardNums  = []int{1, 2, 3, 16, 1024, 5000}
	FileIOs    = []byte{0, 1}
	FileSizes  = []int64{4 << 10, 40 << 10, 64 << 10, 100000, 1 << 20}
	SyncModes  = []struct {
		S byte
		B uint
	}{{0, 0}, {1, 0}, {2, 1}, {2, 300}, {2, 4096}}
)

// RandConfig draws a configuration from the full matrix.
func RandConfig(r *Rng) Config {
	sm := SyncModes[r.Intn(len(SyncModes))]
	return Config{
		IndexType:    IndexTypes[r.Intn(3)],
		ShardNum:     ShardNums[r.Intn(len(ShardNums))],
		FileIO:       FileIOs[r.Intn(2)],
		DataFileSize: FileSizes[r.Intn(len(FileSizes))],
		Sync:         sm.S,
		BytesPerSync: sm.B,
	}
}

// CoverConfigs returns n configurations such that every value of every
// dimension appears (cyclically) and every IndexType x FileIO pair appears;
// remaining freedom is seed-determined.
func CoverConfigs(r *Rng, n int) []Config {
	out := make([]Config, 0, n)
	for i := 0; i < n; i++ {
		c := RandConfig(r)
		c.IndexType = IndexTypes[i%3]
		c.FileIO = FileIOs[(i/3)%2]
		c.ShardNum = ShardNums[(i/2)%len(ShardNums)]
		c.DataFileSize = FileSizes[(i/3+i)%len(FileSizes)]
		sm := SyncModes[(i/5+i)%len(SyncModes)]
		c.Sync, c.BytesPerSync = sm.S, sm.B
		out = append(out, c)
	}
	return out
}
