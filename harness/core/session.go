package core

import (
	"bytes"
	"errors"
	"fmt"
	"os"
	"path/filepath"
	"runtime"
	"sort"

	kv "github.com/XiXi-2024/xixi-kv"
	"verif/harness/mon"
	"verif/harness/vfmt"
)

// Op is one step of a generated workload.
type Op struct {
	Kind  string  `json:"op"` // put del get batch sync merge restart listkeys fold stat
	Key   []byte  `json:"k,omitempty"`
	VLen  int     `json:"vl,omitempty"`
	VSeed uint64  `json:"vs,omitempty"`
	Sub   []Op    `json:"sub,omitempty"`
	BSync bool    `json:"bsync,omitempty"`
	Cfg   *Config `json:"cfg,omitempty"`
	Forge uint8   `json:"forge,omitempty"` // != 0: last four value bytes make the chunk CRC 0 / ~0 / 1 / 1<<31
}

func (o Op) Value() []byte {
	v := FillValue(o.VSeed, o.VLen)
	if o.Forge != 0 {
		// the chunk checksum of this record is forged to a remarkable value
		if f, ok := vfmt.ForgeValue(o.Key, v, []uint32{0, 0, 0xFFFFFFFF, 1, 0x80000000}[o.Forge%5]); ok {
			return f
		}
	}
	return v
}

func (o Op) String() string {
	switch o.Kind {
	case "put":
		return fmt.Sprintf("put(%s,len=%d,vs=%d)", keyStr(o.Key), o.VLen, o.VSeed%100000)
	case "del", "get":
		return fmt.Sprintf("%s(%s)", o.Kind, keyStr(o.Key))
	case "batch":
		s := "batch["
		for i, b := range o.Sub {
			if i > 0 {
				s += " "
			}
			if i >= 12 {
				s += fmt.Sprintf("...+%d", len(o.Sub)-i)
				break
			}
			s += b.String()
		}
		s += "]"
		if o.BSync {
			s += "sync"
		}
		return s
	case "restart":
		if o.Cfg != nil {
			return "restart(" + o.Cfg.String() + ")"
		}
	}
	return o.Kind
}

func keyStr(k []byte) string {
	if len(k) > 24 {
		return fmt.Sprintf("%x..(%d)", k[:8], len(k))
	}
	printable := true
	for _, c := range k {
		if c < 0x21 || c > 0x7e {
			printable = false
		}
	}
	if printable {
		return string(k)
	}
	return fmt.Sprintf("x%x", k)
}

// Safe runs f and converts a panic into a value.
func Safe(f func()) (pv any, stack string) {
	defer func() {
		if r := recover(); r != nil {
			pv = r
			buf := make([]byte, 8<<10)
			stack = string(buf[:runtime.Stack(buf, false)])
		}
	}()
	f()
	return nil, ""
}

// ---------------------------------------------------------------------------
// Dump: the canonical observation of a database through its public API.

type Dump struct {
	Keys   []string          // ListKeys order
	Vals   map[string][]byte // Get of every listed key
	Errs   map[string]string // Get errors
	Fold   []string          // keys in Fold order
	KeyNum int
	Extra  map[string]string // probe results of keys not listed: "" = not found, else error/present
}

// DumpDB observes db. ever = keys to probe in addition to the listed ones.
func DumpDB(db *kv.DB, ever map[string]bool) (d *Dump, pv any, stack string) {
	d = &Dump{Vals: map[string][]byte{}, Errs: map[string]string{}, Extra: map[string]string{}}
	pv, stack = Safe(func() {
		for _, k := range db.ListKeys() {
			d.Keys = append(d.Keys, string(k))
		}
		for _, k := range d.Keys {
			v, err := db.Get([]byte(k))
			if err != nil {
				d.Errs[k] = err.Error()
			} else {
				d.Vals[k] = v
			}
		}
		ferr := db.Fold(func(k, v []byte) bool {
			d.Fold = append(d.Fold, string(k))
			if pv, ok := d.Vals[string(k)]; ok && !bytes.Equal(pv, v) {
				d.Errs[string(k)] = "fold value differs from get value"
			}
			for i := range v {
				v[i] = 0xEE // the callback owns v: overwriting it must not affect anything
			}
			return true
		})
		if ferr != nil {
			d.Errs["<fold>"] = ferr.Error()
		}
		st := db.Stat()
		d.KeyNum = st.KeyNum
		st.KeyNum = -4242 // the caller owns the returned struct
		for k := range ever {
			if _, ok := d.Vals[k]; ok {
				continue
			}
			if _, ok := d.Errs[k]; ok {
				continue
			}
			v, err := db.Get([]byte(k))
			switch {
			case err == nil:
				d.Extra[k] = fmt.Sprintf("present(len=%d) although not listed", len(v))
			case errors.Is(err, kv.ErrKeyNotFound):
			default:
				d.Extra[k] = err.Error()
			}
		}
	})
	return
}

// AsModel converts the Get-visible part of a dump into a model (for prefix lookup).
func (d *Dump) AsModel() *Model {
	m := NewModel()
	for k, v := range d.Vals {
		m.M[k] = v
	}
	return m
}

// Diff compares a dump with a model state; "" means equal.
func (d *Dump) Diff(m *Model) string {
	want := m.Keys()
	got := append([]string{}, d.Keys...)
	if !sort.StringsAreSorted(got) {
		return fmt.Sprintf("ListKeys not sorted ascending: %q", trunc(got, 8))
	}
	for i := 1; i < len(got); i++ {
		if got[i] == got[i-1] {
			return fmt.Sprintf("ListKeys yields %s twice", keyStr([]byte(got[i])))
		}
	}
	if len(got) != len(want) {
		return fmt.Sprintf("key count: ListKeys has %d keys, model has %d (%s)", len(got), len(want), keyDelta(got, want))
	}
	for i := range got {
		if got[i] != want[i] {
			return fmt.Sprintf("key set differs (%s)", keyDelta(got, want))
		}
	}
	for _, k := range want {
		if e, ok := d.Errs[k]; ok {
			return fmt.Sprintf("Get(%s) error: %s", keyStr([]byte(k)), e)
		}
		if !bytes.Equal(d.Vals[k], m.M[k]) {
			return fmt.Sprintf("Get(%s) = %s, model has %s", keyStr([]byte(k)), valStr(d.Vals[k]), valStr(m.M[k]))
		}
	}
	if e, ok := d.Errs["<fold>"]; ok {
		return "Fold error: " + e
	}
	if len(d.Fold) != len(want) {
		return fmt.Sprintf("Fold visited %d keys, model has %d", len(d.Fold), len(want))
	}
	for i := range want {
		if d.Fold[i] != want[i] {
			return fmt.Sprintf("Fold order differs at %d", i)
		}
	}
	if d.KeyNum != len(want) {
		return fmt.Sprintf("Stat.KeyNum=%d, model has %d keys", d.KeyNum, len(want))
	}
	for k, e := range d.Extra {
		return fmt.Sprintf("probe of unlisted key %s: %s", keyStr([]byte(k)), e)
	}
	return ""
}

func trunc(l []string, n int) []string {
	if len(l) > n {
		return l[:n]
	}
	return l
}

func keyDelta(got, want []string) string {
	g := map[string]bool{}
	w := map[string]bool{}
	for _, k := range got {
		g[k] = true
	}
	for _, k := range want {
		w[k] = true
	}
	var extra, missing []string
	for _, k := range got {
		if !w[k] {
			extra = append(extra, keyStr([]byte(k)))
		}
	}
	for _, k := range want {
		if !g[k] {
			missing = append(missing, keyStr([]byte(k)))
		}
	}
	return fmt.Sprintf("unexpected=%v missing=%v", trunc(extra, 4), trunc(missing, 4))
}

func valStr(v []byte) string {
	if v == nil {
		return "nil"
	}
	if len(v) <= 12 {
		return fmt.Sprintf("%x(len=%d)", v, len(v))
	}
	return fmt.Sprintf("%x..(len=%d,h=%s)", v[:8], len(v), HashBytes(v)[:8])
}

// ---------------------------------------------------------------------------
// Session: a database under test in lock-step with the model.

type Session struct {
	exact    []byte   // exact-size value slice handed to the call in flight
	watched  [][]byte // exact-size value slices handed over earlier, now poisoned
	MayFail  bool     // Put/Delete may return an error (the environment refuses the write): no effect expected
	Spell    bool     // every Open spells DirPath differently (trailing separator, /., /./, //)
	nOpen    int
	NoStates bool // large models: do not hash the mapping after every mutation
	Dir      string
	Cfg      Config
	DB       *kv.DB
	M        *Model
	Res      *Result
	IO       *mon.IOLog
	Log      []string
	Step     int
	Prop     string
	Extra    map[string]string // extra features for violations
	// States keeps the hash of every model state reached (distinct states evidence).
	States map[string]bool
	// KeyBuf/ValBuf: when non-nil the session passes these reused buffers to the engine (C14/C15).
	ReuseBuf bool
	kbuf     []byte
	vbuf     []byte
	// Canary: poison the reused buffers with a step-dependent pattern after every
	// return, verify the pattern before the next call (the engine must not write
	// into caller memory), and keep every slice returned by Get with a private copy.
	Canary   bool
	kpoison  byte
	vpoison  byte
	poisoned bool
	retained []retainedSlice
	Dead     bool // a violation made the session unusable
	Panicked bool // an engine call panicked: locks may be held, never touch the DB again
	// MergeErrOK: Merge may return an error if nothing changed.
	FullEvery int
	// AfterOp is invoked after every executed op (op index, op).
	AfterOp func(i int, op Op)
}

func NewSession(dir string, cfg Config, res *Result) *Session {
	return &Session{Dir: dir, Cfg: cfg, M: NewModel(), Res: res, States: map[string]bool{}, FullEvery: 8}
}

func (s *Session) feat(class string, kv2 ...string) map[string]string {
	f := map[string]string{"class": class, "io": fmt.Sprint(s.Cfg.FileIO), "index": fmt.Sprint(s.Cfg.IndexType)}
	for k, v := range s.Extra {
		f[k] = v
	}
	for i := 0; i+1 < len(kv2); i += 2 {
		f[kv2[i]] = kv2[i+1]
	}
	return f
}

func (s *Session) fail(class, msg string, kv2 ...string) {
	s.Res.Violate(fmt.Sprintf("step %d: %s", s.Step, msg), s.feat(class, kv2...), map[string]any{"config": s.Cfg, "ops": s.tailLog(60)})
}

func (s *Session) tailLog(n int) []string {
	if len(s.Log) > n {
		return append([]string{fmt.Sprintf("...(%d earlier ops)", len(s.Log)-n)}, s.Log[len(s.Log)-n:]...)
	}
	return s.Log
}

func (s *Session) Open() bool {
	var db *kv.DB
	var err error
	dir := s.Dir
	if s.Spell {
		// the same directory, spelled differently by every process that opens it
		sp := []string{s.Dir, s.Dir + "/", s.Dir + "/.", filepath.Dir(s.Dir) + "/./" + filepath.Base(s.Dir), s.Dir + "//"}
		dir = sp[s.nOpen%len(sp)]
		if dir != s.Dir {
			s.Res.Add("opens_under_another_spelling_of_the_path", 1)
		}
	}
	s.nOpen++
	pv, st := Safe(func() { db, err = kv.Open(s.Cfg.Options(dir)) })
	if pv != nil {
		s.Panicked = true
		s.Res.Violate(fmt.Sprintf("step %d: Open panicked: %v", s.Step, pv), s.feat("open-panic", "panic", firstLine(fmt.Sprint(pv))), map[string]any{"config": s.Cfg, "ops": s.tailLog(60), "stack": st})
		s.Dead = true
		return false
	}
	if err != nil {
		s.fail("open-error", "Open failed: "+err.Error(), "err", err.Error())
		s.Dead = true
		return false
	}
	s.DB = db
	s.Res.Add("opens", 1)
	return true
}

func (s *Session) Close() bool {
	if s.DB == nil {
		return true
	}
	if s.Panicked {
		s.DB = nil
		return true
	}
	var err error
	pv, st := Safe(func() { err = s.DB.Close() })
	s.DB = nil
	if pv != nil {
		s.Panicked = true
		s.Res.Violate(fmt.Sprintf("step %d: Close panicked: %v", s.Step, pv), s.feat("close-panic"), st)
		s.Dead = true
		return false
	}
	if err != nil {
		s.fail("close-error", "Close failed: "+err.Error(), "err", err.Error())
		s.Dead = true
		return false
	}
	return true
}

func (s *Session) key(k []byte) []byte {
	if !s.ReuseBuf {
		return k
	}
	if cap(s.kbuf) < len(k)+16 {
		s.kbuf = make([]byte, 0, len(k)+64)
	}
	s.kbuf = append(s.kbuf[:0], k...)
	return s.kbuf
}

func (s *Session) val(v []byte) []byte {
	if !s.ReuseBuf {
		return v
	}
	if n := len(v); s.Canary && n > 0 && (n&(n-1) == 0 || n%4096 == 0 || s.Step%9 == 4) {
		// a freshly allocated slice of exactly this length (len == cap), handed over once:
		// poisoned after the call returns and watched for the rest of the case
		e := make([]byte, n)
		copy(e, v)
		s.exact = e
		return e
	}
	if cap(s.vbuf) < len(v)+16 {
		s.vbuf = make([]byte, 0, len(v)+64)
	}
	s.vbuf = append(s.vbuf[:0], v...)
	return s.vbuf
}

type retainedSlice struct {
	got  []byte
	copy []byte
	step int
	what string
}

// scribble overwrites the reused buffers after a call returned.
func (s *Session) scribble() {
	if !s.ReuseBuf {
		return
	}
	s.kpoison, s.vpoison = 0xA5, 0x5A
	if s.Canary {
		s.kpoison, s.vpoison = byte(s.Step*7+1), byte(s.Step*13+5)
	}
	kb, vb := s.kbuf[:cap(s.kbuf)], s.vbuf[:cap(s.vbuf)]
	for i := range kb {
		kb[i] = s.kpoison
	}
	for i := range vb {
		vb[i] = s.vpoison
	}
	s.poisoned = true
	if s.exact != nil {
		for i := range s.exact {
			s.exact[i] = 0xC3
		}
		if len(s.watched) >= 40 {
			s.watched = s.watched[8:]
		}
		s.watched = append(s.watched, s.exact)
		s.exact = nil
		s.Res.Add("exact_size_value_slices_watched", 1)
	}
}

// CheckCanary verifies that nobody wrote into the caller's buffers since the
// last return, and that slices handed out by Get did not change.
func (s *Session) CheckCanary(when string) bool {
	if !s.Canary {
		return true
	}
	if s.poisoned {
		s.Res.Add("canary_checks", 1)
		kb, vb := s.kbuf[:cap(s.kbuf)], s.vbuf[:cap(s.vbuf)]
		for i := range kb {
			if kb[i] != s.kpoison {
				s.fail("caller-buffer-modified", fmt.Sprintf("%s: the caller's key buffer was written to after the call returned (byte %d of %d is %#x, poison %#x)", when, i, len(kb), kb[i], s.kpoison), "buffer", "key")
				return false
			}
		}
		for i := range vb {
			if vb[i] != s.vpoison {
				s.fail("caller-buffer-modified", fmt.Sprintf("%s: the caller's value buffer was written to after the call returned (byte %d of %d is %#x, poison %#x)", when, i, len(vb), vb[i], s.vpoison), "buffer", "value")
				return false
			}
		}
	}
	for _, wb := range s.watched {
		for i := range wb {
			if wb[i] != 0xC3 {
				s.fail("caller-buffer-modified", fmt.Sprintf("%s: a value slice of exactly %d bytes (len == cap) passed to an earlier Put was written to after that call had returned (byte %d is %#x)", when, len(wb), i, wb[i]), "buffer", "exact-value")
				return false
			}
		}
	}
	for _, rs := range s.retained {
		if s.Step-rs.step > 50 && when != "final" {
			continue
		}
		s.Res.Add("retained_slice_checks", 1)
		if !bytes.Equal(rs.got, rs.copy) {
			s.fail("returned-slice-changed", fmt.Sprintf("%s: the slice returned by %s at step %d changed afterwards (len %d)", when, rs.what, rs.step, len(rs.copy)), "call", rs.what)
			return false
		}
	}
	return true
}

func (s *Session) retain(what string, v []byte) {
	if !s.Canary || len(v) == 0 {
		return
	}
	if len(s.retained) >= 400 {
		s.retained = s.retained[100:]
	}
	s.retained = append(s.retained, retainedSlice{got: v, copy: append([]byte{}, v...), step: s.Step, what: what})
	s.Res.Add("retained_slices", 1)
}

// CheckGet compares Get(k) with the model.
func (s *Session) CheckGet(k []byte) bool {
	var v []byte
	var err error
	pv, st := Safe(func() { v, err = s.DB.Get(s.key(k)) })
	s.scribble()
	s.retain("DB.Get", v)
	s.Res.Add("compared_calls", 1)
	if pv != nil {
		s.Panicked = true
		s.Res.Violate(fmt.Sprintf("step %d: Get(%s) panicked: %v", s.Step, keyStr(k), pv), s.feat("panic", "call", "Get"), st)
		s.Dead = true
		return false
	}
	want, ok := s.M.Get(k)
	switch {
	case len(k) == 0:
		if !errors.Is(err, kv.ErrKeyIsEmpty) {
			s.fail("wrong-result", fmt.Sprintf("Get(empty key) returned err=%v", err), "call", "Get")
			return false
		}
	case !ok:
		if !errors.Is(err, kv.ErrKeyNotFound) {
			s.fail("wrong-result", fmt.Sprintf("Get(%s) = %s, err=%v; model: not found", keyStr(k), valStr(v), err), "call", "Get", "kind", "phantom")
			return false
		}
	default:
		if err != nil {
			s.fail("wrong-result", fmt.Sprintf("Get(%s) error %v; model has %s", keyStr(k), err, valStr(want)), "call", "Get", "kind", "error", "err", err.Error())
			return false
		}
		if !bytes.Equal(v, want) {
			s.fail("wrong-result", fmt.Sprintf("Get(%s) = %s; model has %s", keyStr(k), valStr(v), valStr(want)), "call", "Get", "kind", "value")
			return false
		}
		if s.Canary && len(v) > 0 && s.Step%3 == 0 {
			// the caller owns what Get returned: a second Get fills the first result with
			// garbage and asks again - the answer must still be the stored value
			var v2 []byte
			pv, _ := Safe(func() { v2, err = s.DB.Get(s.key(k)) })
			s.scribble()
			if pv == nil && err == nil {
				for i := range v2 {
					v2[i] = 0xEE
				}
				var v3 []byte
				pv, _ = Safe(func() { v3, err = s.DB.Get(s.key(k)) })
				s.scribble()
				s.Res.Add("gets_after_scribbling_a_returned_slice", 1)
				if pv != nil || err != nil || !bytes.Equal(v3, want) {
					s.fail("returned-slice-shared", fmt.Sprintf("Get(%s) after the caller overwrote the slice a previous Get had returned = %s err=%v; model has %s", keyStr(k), valStr(v3), err, valStr(want)), "call", "Get")
					return false
				}
				if !bytes.Equal(v, want) {
					s.fail("returned-slice-changed", fmt.Sprintf("the slice returned by Get(%s) changed when the result of a LATER Get was overwritten", keyStr(k)), "call", "Get")
					return false
				}
			}
		}
	}
	return true
}

// CheckDump compares a full dump with the model.
func (s *Session) CheckDump(where string) bool {
	d, pv, st := DumpDB(s.DB, s.M.Ever)
	s.Res.Add("full_dumps", 1)
	s.Res.Add("compared_calls", int64(2*len(d.Keys)+3))
	if pv != nil {
		s.Panicked = true
		s.Res.Violate(fmt.Sprintf("step %d: dump %s panicked: %v", s.Step, where, pv), s.feat("panic", "call", "dump"), st)
		s.Dead = true
		return false
	}
	if diff := d.Diff(s.M); diff != "" {
		s.fail("dump-mismatch", "dump "+where+": "+diff, "where", where)
		return false
	}
	return true
}

func (s *Session) noteState() {
	if s.NoStates {
		return
	}
	if len(s.States) < 100000 {
		s.States[s.M.Hash()] = true
	}
}

// Exec runs one op against the database and the model and compares.
// It returns false when the session cannot continue.
func (s *Session) Exec(op Op) bool {
	if s.Dead {
		return false
	}
	s.Step++
	if len(s.Log) < 5000 {
		s.Log = append(s.Log, op.String())
	}
	if s.IO != nil {
		s.IO.Mark("api.call", op.Kind, s.Step)
		defer s.IO.Mark("api.return", op.Kind, s.Step)
	}
	s.Res.Add("ops_"+op.Kind, 1)
	if !s.CheckCanary("before " + op.Kind) {
		return false
	}
	ok := s.exec1(op)
	if ok && !s.CheckCanary("after "+op.Kind) {
		return false
	}
	if ok && s.AfterOp != nil {
		s.AfterOp(s.Step, op)
	}
	return ok && !s.Dead
}

func (s *Session) exec1(op Op) bool {
	switch op.Kind {
	case "put":
		v := op.Value()
		var err error
		pv, st := Safe(func() { err = s.DB.Put(s.key(op.Key), s.val(v)) })
		s.scribble()
		if pv != nil {
			s.Panicked = true
			s.Res.Violate(fmt.Sprintf("step %d: %s panicked: %v", s.Step, op, pv), s.feat("panic", "call", "Put"), st)
			s.Dead = true
			return false
		}
		if len(op.Key) == 0 {
			if !errors.Is(err, kv.ErrKeyIsEmpty) {
				s.fail("wrong-result", fmt.Sprintf("Put(empty key) err=%v", err), "call", "Put")
			}
			return true
		}
		if err != nil && s.MayFail {
			// a refused write must leave the mapping as it was
			s.Res.Add("failed_calls_checked_for_no_effect", 1)
			return s.CheckGet(op.Key)
		}
		if err != nil {
			s.fail("wrong-result", fmt.Sprintf("%s returned error %v", op, err), "call", "Put", "err", err.Error())
			return false
		}
		s.M.Put(op.Key, v)
		s.noteState()
		return s.CheckGet(op.Key)
	case "del":
		var err error
		pv, st := Safe(func() { err = s.DB.Delete(s.key(op.Key)) })
		s.scribble()
		if pv != nil {
			s.Panicked = true
			s.Res.Violate(fmt.Sprintf("step %d: %s panicked: %v", s.Step, op, pv), s.feat("panic", "call", "Delete"), st)
			s.Dead = true
			return false
		}
		if len(op.Key) == 0 {
			if !errors.Is(err, kv.ErrKeyIsEmpty) {
				s.fail("wrong-result", fmt.Sprintf("Delete(empty key) err=%v", err), "call", "Delete")
			}
			return true
		}
		if err != nil && s.MayFail {
			s.Res.Add("failed_calls_checked_for_no_effect", 1)
			return s.CheckGet(op.Key)
		}
		if err != nil {
			s.fail("wrong-result", fmt.Sprintf("%s returned error %v", op, err), "call", "Delete", "err", err.Error())
			return false
		}
		s.M.Delete(op.Key)
		s.noteState()
		return s.CheckGet(op.Key)
	case "get":
		return s.CheckGet(op.Key)
	case "batch":
		return s.execBatch(op)
	case "sync":
		var err error
		pv, st := Safe(func() { err = s.DB.Sync() })
		if pv != nil {
			s.Panicked = true
			s.Res.Violate(fmt.Sprintf("step %d: Sync panicked: %v", s.Step, pv), s.feat("panic", "call", "Sync"), st)
			s.Dead = true
			return false
		}
		if err != nil {
			s.fail("wrong-result", "Sync error "+err.Error(), "call", "Sync")
		}
		return true
	case "merge":
		var err error
		pv, st := Safe(func() { err = s.DB.Merge() })
		if pv != nil {
			s.Panicked = true
			s.Res.Violate(fmt.Sprintf("step %d: Merge panicked: %v", s.Step, pv), s.feat("panic", "call", "Merge"), st)
			s.Dead = true
			return false
		}
		if err != nil {
			s.Res.Add("merge_errors", 1)
			s.Res.SetAdd("merge_error_kinds", err.Error())
		}
		return s.CheckDump("after-merge")
	case "restart":
		before, pv, st := DumpDB(s.DB, s.M.Ever)
		if pv != nil {
			s.Panicked = true
			s.Res.Violate(fmt.Sprintf("step %d: dump before Close panicked: %v", s.Step, pv), s.feat("panic", "call", "dump"), st)
			s.Dead = true
			return false
		}
		if diff := before.Diff(s.M); diff != "" {
			s.fail("dump-mismatch", "dump before Close: "+diff, "where", "before-close")
			return false
		}
		if !s.Close() {
			return false
		}
		if op.Cfg != nil {
			s.Cfg = *op.Cfg
		}
		if !s.Open() {
			return false
		}
		s.Res.Add("restarts", 1)
		return s.CheckDump("after-restart")
	case "listkeys", "fold", "stat":
		return s.CheckDump("op-" + op.Kind)
	}
	panic("unknown op " + op.Kind)
}

func (s *Session) execBatch(op Op) bool {
	var b *kv.Batch
	type staged struct {
		del bool
		k   []byte
		v   []byte
	}
	overlay := map[string]*staged{}
	var order []staged
	failed := false
	pv, st := Safe(func() {
		b = s.DB.NewBatch(kv.BatchOptions{Sync: op.BSync})
		for _, so := range op.Sub {
			switch so.Kind {
			case "put":
				v := so.Value()
				err := b.Put(s.key(so.Key), s.val(v))
				s.scribble()
				if err != nil {
					s.fail("wrong-result", fmt.Sprintf("Batch.%s error %v", so, err), "call", "Batch.Put", "err", err.Error())
					failed = true
					continue
				}
				e := staged{false, so.Key, v}
				overlay[string(so.Key)] = &e
				order = append(order, e)
			case "del":
				err := b.Delete(s.key(so.Key))
				s.scribble()
				if err != nil {
					s.fail("wrong-result", fmt.Sprintf("Batch.%s error %v", so, err), "call", "Batch.Delete", "err", err.Error())
					failed = true
					continue
				}
				e := staged{true, so.Key, nil}
				overlay[string(so.Key)] = &e
				order = append(order, e)
			case "get":
				v, err := b.Get(s.key(so.Key))
				s.scribble()
				s.retain("Batch.Get", v)
				s.Res.Add("compared_calls", 1)
				s.Res.Add("batch_gets", 1)
				var want []byte
				present := false
				if e, ok := overlay[string(so.Key)]; ok {
					if !e.del {
						want, present = e.v, true
					}
				} else {
					want, present = s.M.Get(so.Key)
				}
				if !present {
					if !errors.Is(err, kv.ErrKeyNotFound) {
						s.fail("wrong-result", fmt.Sprintf("Batch.Get(%s) = %s err=%v; expected not found", keyStr(so.Key), valStr(v), err), "call", "Batch.Get", "kind", "phantom")
						failed = true
					}
				} else if err != nil || !bytes.Equal(v, want) {
					s.fail("wrong-result", fmt.Sprintf("Batch.Get(%s) = %s err=%v; expected %s", keyStr(so.Key), valStr(v), err, valStr(want)), "call", "Batch.Get", "kind", "value")
					failed = true
				}
			}
		}
		err := b.Commit()
		if err != nil {
			s.fail("wrong-result", fmt.Sprintf("Commit error %v", err), "call", "Commit", "err", err.Error())
			failed = true
		}
	})
	if pv != nil {
		s.Panicked = true
		s.Res.Violate(fmt.Sprintf("step %d: batch panicked: %v", s.Step, pv), s.feat("panic", "call", "Batch"), st)
		s.Dead = true
		return false
	}
	if failed {
		s.Dead = true
		return false
	}
	for _, e := range order {
		if e.del {
			s.M.Delete(e.k)
		} else {
			s.M.Put(e.k, e.v)
		}
	}
	s.Res.Add("batch_commits", 1)
	s.noteState()
	for k := range overlay {
		if !s.CheckGet([]byte(k)) {
			return false
		}
	}
	return true
}

// ---------------------------------------------------------------------------
// Generator

type Gen struct {
	NoForge bool // no forged chunk checksums
	R       *Rng
	Keys    [][]byte
	Cfg     Config
	MaxVal  int
	// EndOff reports the observed end offset of the active data file (or -1).
	EndOff func() int64
	// Weights
	NoMerge, NoRestart, NoBatch, NoOversize bool
	RestartCfg                              func(r *Rng) *Config
}

const keyAlphabet = "abkz"

func GenKeys(r *Rng, n int) [][]byte {
	seen := map[string]bool{}
	var out [][]byte
	if n >= 4 && r.Chance(1, 3) {
		// a family of siblings: one base key of 9..24 bytes and variants that differ from it in a
		// single byte (by one low bit or by one) at a seed-chosen position, incl. the 7th/8th byte
		base := make([]byte, r.Range(9, 24))
		for i := range base {
			base[i] = "user:0123456789:nameXY"[r.Intn(22)]
		}
		out = append(out, append([]byte{}, base...))
		seen[string(base)] = true
		for len(out) < n/2+1 {
			k := append([]byte{}, base...)
			p := r.Intn(len(k))
			if r.Chance(1, 2) {
				p = r.Range(5, 8)
			}
			if r.Chance(1, 2) {
				k[p] ^= 1
			} else {
				k[p]++
			}
			if !seen[string(k)] {
				seen[string(k)] = true
				out = append(out, k)
			}
		}
	}
	for len(out) < n {
		var k []byte
		switch c := r.Intn(40); {
		case c == 0:
			k = FillValue(r.U64()|1, r.Range(200, 3000)) // long key
			if r.Chance(1, 6) {
				k = FillValue(r.U64()|1, r.Range(32<<10, 40<<10)) // key longer than a block
			}
		case c < 5:
			k = make([]byte, r.Range(1, 12)) // varint-continuation bytes
			for i := range k {
				k[i] = byte(0x80 + r.Intn(0x80))
			}
		case c < 8:
			k = make([]byte, r.Range(1, 64))
			for i := range k {
				k[i] = keyAlphabet[r.Intn(len(keyAlphabet))]
			}
		default:
			k = make([]byte, r.Range(1, 5))
			for i := range k {
				k[i] = keyAlphabet[r.Intn(len(keyAlphabet))]
			}
		}
		if !seen[string(k)] {
			seen[string(k)] = true
			out = append(out, k)
		}
	}
	return out
}

func (g *Gen) Key() []byte { return g.Keys[g.R.Intn(len(g.Keys))] }

// VLen draws a value length; boundary classes use the observed end offset.
func (g *Gen) VLen(klen int) int {
	r := g.R
	maxv := g.MaxVal
	if maxv == 0 {
		maxv = 100 << 10
	}
	off := int64(-1)
	if g.EndOff != nil {
		off = g.EndOff()
	}
	hdr := vfmt.EncodedLen(klen, 1000, 0) - klen - 1000
	var n int
	switch c := r.Intn(100); {
	case c < 8:
		n = 0
	case c < 30:
		n = r.Range(1, 64)
	case c < 48:
		n = r.Range(200, 2000)
	case c < 75 && off >= 0:
		// land the record end at a block boundary + d
		inb := off % vfmt.Block
		room := int(vfmt.Block - inb)
		if room <= vfmt.Header {
			room = vfmt.Block // write starts in next block after padding
		}
		d := r.Range(-9, 9)
		spans := r.Intn(3) // extra full blocks
		total := room + spans*vfmt.Block + d
		chunks := 1 + spans
		if d > 0 {
			chunks++
		}
		n = total - chunks*vfmt.Header - hdr - klen
		for n < 0 {
			n += vfmt.Block - vfmt.Header
		}
	case c < 82:
		n = r.Range(1, 3)*vfmt.Block + r.Range(-8, 8)
	case c < 85:
		// sizes at which allocators and pools change class
		n = 1<<uint(r.Range(9, 17)) + []int{0, 0, 0, -1, 1}[r.Intn(5)]
	case c < 90 && !g.NoOversize && g.Cfg.DataFileSize <= 100000:
		n = int(g.Cfg.DataFileSize) + r.Range(-40, 3000)
	default:
		n = r.Range(1, 300)
	}
	if n > maxv {
		n = maxv - r.Intn(16)
	}
	if n < 0 {
		n = 0
	}
	return n
}

func (g *Gen) Put() Op {
	k := g.Key()
	op := Op{Kind: "put", Key: k, VLen: g.VLen(len(k)), VSeed: g.R.U64() | 1}
	if g.R.Chance(1, 25) {
		op.VSeed = 0 // all-zero value
	}
	if g.R.Chance(1, 30) && !g.NoForge {
		// a small record whose stored chunk checksum is 0x00000000 (or another remarkable
		// value): valid content that looks like "nothing there" to a careless reader
		op.VLen, op.Forge = g.R.Range(4, 300), uint8(g.R.Range(1, 5))
	}
	return op
}

func (g *Gen) Batch() Op {
	r := g.R
	n := r.Range(1, 12)
	if r.Chance(1, 6) {
		n = r.Range(12, 40)
	}
	op := Op{Kind: "batch", BSync: r.Chance(1, 4)}
	for i := 0; i < n; i++ {
		switch c := r.Intn(10); {
		case c < 6:
			k := g.Key()
			vl := g.VLen(len(k))
			if vl > 40<<10 && !r.Chance(1, 8) {
				vl = r.Range(0, 900)
			}
			op.Sub = append(op.Sub, Op{Kind: "put", Key: k, VLen: vl, VSeed: r.U64()})
		case c < 8:
			op.Sub = append(op.Sub, Op{Kind: "del", Key: g.Key()})
		default:
			op.Sub = append(op.Sub, Op{Kind: "get", Key: g.Key()})
		}
	}
	return op
}

// Next draws the next op of a mixed workload.
func (g *Gen) Next() Op {
	r := g.R
	for {
		switch c := r.Intn(100); {
		case c < 42:
			return g.Put()
		case c < 56:
			return Op{Kind: "del", Key: g.Key()}
		case c < 66:
			return Op{Kind: "get", Key: g.Key()}
		case c < 78:
			if g.NoBatch {
				continue
			}
			return g.Batch()
		case c < 81:
			return Op{Kind: "sync"}
		case c < 84:
			if g.NoMerge {
				continue
			}
			return Op{Kind: "merge"}
		case c < 88:
			if g.NoRestart {
				continue
			}
			op := Op{Kind: "restart"}
			if g.RestartCfg != nil {
				op.Cfg = g.RestartCfg(r)
			}
			return op
		case c < 92:
			return Op{Kind: "listkeys"}
		case c < 96:
			return Op{Kind: "fold"}
		default:
			return Op{Kind: "stat"}
		}
	}
}

// DataFiles lists the *.data files of dir in id order.
func DataFiles(dir string) []string {
	ents, _ := os.ReadDir(dir)
	var out []string
	for _, e := range ents {
		if len(e.Name()) > 5 && e.Name()[len(e.Name())-5:] == ".data" {
			out = append(out, e.Name())
		}
	}
	sort.Strings(out)
	return out
}
