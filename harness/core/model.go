package core

import (
	"crypto/sha256"
	"encoding/hex"
	"sort"
)

// Model is the reference map.
type Model struct {
	M map[string][]byte
	// Ever holds every key that was ever put (for probing resurrected keys).
	Ever map[string]bool
}

func NewModel() *Model { return &Model{M: map[string][]byte{}, Ever: map[string]bool{}} }

func (m *Model) Put(k, v []byte) {
	m.M[string(k)] = append([]byte{}, v...)
	m.Ever[string(k)] = true
}
func (m *Model) Delete(k []byte) { delete(m.M, string(k)); m.Ever[string(k)] = true }
func (m *Model) Get(k []byte) ([]byte, bool) {
	v, ok := m.M[string(k)]
	return v, ok
}

func (m *Model) Clone() *Model {
	n := NewModel()
	for k, v := range m.M {
		n.M[k] = v // values are never mutated in place
	}
	for k := range m.Ever {
		n.Ever[k] = true
	}
	return n
}

func (m *Model) Keys() []string {
	ks := make([]string, 0, len(m.M))
	for k := range m.M {
		ks = append(ks, k)
	}
	sort.Strings(ks)
	return ks
}

// Hash identifies a mapping (keys and values).
func (m *Model) Hash() string {
	h := sha256.New()
	var l [8]byte
	for _, k := range m.Keys() {
		v := m.M[k]
		putLen(&l, len(k))
		h.Write(l[:])
		h.Write([]byte(k))
		putLen(&l, len(v))
		h.Write(l[:])
		h.Write(v)
	}
	return hex.EncodeToString(h.Sum(nil)[:12])
}

func putLen(b *[8]byte, n int) {
	for i := 0; i < 8; i++ {
		b[i] = byte(n >> (8 * i))
	}
}

func HashBytes(parts ...[]byte) string {
	h := sha256.New()
	var l [8]byte
	for _, p := range parts {
		putLen(&l, len(p))
		h.Write(l[:])
		h.Write(p)
	}
	return hex.EncodeToString(h.Sum(nil)[:12])
}
