package core

// Small deterministic PRNG (splitmix64). Every random choice of the harness
// goes through one of these, seeded from VERIF_SEED and the case index, so a
// case list is a pure function of (property, tier, seed).
type Rng struct{ s uint64 }

func NewRng(seed uint64) *Rng { return &Rng{s: seed*0x9E3779B97F4A7C15 + 0x1234567} }

func (r *Rng) U64() uint64 {
	r.s += 0x9E3779B97F4A7C15
	z := r.s
	z = (z ^ (z >> 30)) * 0xBF58476D1CE4E5B9
	z = (z ^ (z >> 27)) * 0x94D049BB133111EB
	return z ^ (z >> 31)
}

// Intn returns a value in [0,n). n<=0 yields 0.
func (r *Rng) Intn(n int) int {
	if n <= 0 {
		return 0
	}
	return int(r.U64() % uint64(n))
}

// Range returns a value in [lo,hi].
func (r *Rng) Range(lo, hi int) int {
	if hi <= lo {
		return lo
	}
	return lo + r.Intn(hi-lo+1)
}

func (r *Rng) Chance(num, den int) bool { return r.Intn(den) < num }

func (r *Rng) Fork() *Rng { return NewRng(r.U64()) }

// Mix derives a sub-seed.
func Mix(a, b uint64) uint64 {
	r := NewRng(a ^ (b+0x51ED27)*0xD6E8FEB86659FD93)
	return r.U64()
}

// FillValue writes a deterministic byte pattern for (seed, n).
func FillValue(seed uint64, n int) []byte {
	if n <= 0 {
		return []byte{}
	}
	b := make([]byte, n)
	if seed == 0 {
		return b // all-zero value (looks like padding / pre-allocated space)
	}
	x := seed*0x9E3779B97F4A7C15 + 1
	i := 0
	for i+8 <= n {
		x ^= x << 13
		x ^= x >> 7
		x ^= x << 17
		b[i] = byte(x)
		b[i+1] = byte(x >> 8)
		b[i+2] = byte(x >> 16)
		b[i+3] = byte(x >> 24)
		b[i+4] = byte(x >> 32)
		b[i+5] = byte(x >> 40)
		b[i+6] = byte(x >> 48)
		b[i+7] = byte(x >> 56)
		i += 8
	}
	for ; i < n; i++ {
		x ^= x << 13
		x ^= x >> 7
		x ^= x << 17
		b[i] = byte(x)
	}
	return b
}
