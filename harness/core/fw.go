package core

import (
	"bufio"
	"bytes"
	"crypto/sha256"
	"encoding/hex"
	"encoding/json"
	"fmt"
	"os"
	"os/exec"
	"path/filepath"
	"regexp"
	"runtime"
	"runtime/pprof"
	"sort"
	"strconv"
	"strings"
	"sync"
	"sync/atomic"
	"syscall"
	"time"
)

// ---------------------------------------------------------------------------
// Cases, results, properties

type Case struct {
	Index int
	ID    string
	Seed  uint64
	Data  any // property-private, regenerated from (tier, seed) in every process
}

type Violation struct {
	Msg      string            `json:"msg"`
	Features map[string]string `json:"features,omitempty"`
	Detail   any               `json:"detail,omitempty"`
}

type Result struct {
	Index      int                 `json:"index"`
	ID         string              `json:"id"`
	Verdict    string              `json:"verdict"` // held | violated | inconclusive
	Nontrivial bool                `json:"nontrivial"`
	Hash       string              `json:"hash"`
	Counters   map[string]int64    `json:"counters,omitempty"`
	Sets       map[string][]string `json:"sets,omitempty"` // distinct-value sets, unioned by the driver
	Violations []Violation         `json:"violations,omitempty"`
	Sample     any                 `json:"sample,omitempty"`
	Note       string              `json:"note,omitempty"`
}

// resMu makes the Result helpers safe for monitors that are called from engine goroutines
// (hook events of a background merge) while the case's own goroutine records as well.
var resMu sync.Mutex

func (r *Result) Add(name string, n int64) {
	resMu.Lock()
	defer resMu.Unlock()
	if r.Counters == nil {
		r.Counters = map[string]int64{}
	}
	r.Counters[name] += n
}

func (r *Result) SetAdd(name, v string) {
	resMu.Lock()
	defer resMu.Unlock()
	if r.Sets == nil {
		r.Sets = map[string][]string{}
	}
	for _, x := range r.Sets[name] {
		if x == v {
			return
		}
	}
	if len(r.Sets[name]) < 4096 {
		r.Sets[name] = append(r.Sets[name], v)
	}
}

func (r *Result) Violate(msg string, features map[string]string, detail any) {
	resMu.Lock()
	defer resMu.Unlock()
	r.Verdict = "violated"
	if len(r.Violations) < 8 {
		r.Violations = append(r.Violations, Violation{Msg: msg, Features: features, Detail: detail})
	}
}

type Property interface {
	ID() string
	Level() string
	Rule() string
	Assumptions() []string
	// Cases returns the fixed, seed-determined case list of a tier.
	Cases(tier string, seed uint64) []Case
	// Run executes one case inside a worker process.
	Run(c Case, w *Worker) Result
	// Required lists counters that must be non-zero over the whole run; a run
	// whose monitors observed none of them is broken, not "held".
	Required() []string
}

// Optional interfaces.
type Exhaustiver interface{ Exhaustive(tier string) bool }
type CaseBudgeter interface {
	CaseBudget(tier string) time.Duration
}
type Extra interface {
	ExtraCoverage(tier string, counters map[string]int64, sets map[string]map[string]bool) map[string]any
}

var registry = map[string]Property{}

func Register(p Property)       { registry[p.ID()] = p }
func Lookup(id string) Property { return registry[id] }
func AllIDs() []string {
	ids := []string{}
	for k := range registry {
		ids = append(ids, k)
	}
	sort.Strings(ids)
	return ids
}

// ---------------------------------------------------------------------------
// Worker side

type Worker struct {
	Tier    string
	Seed    uint64
	scratch string
	n       int
}

func ScratchRoot() string {
	if s := os.Getenv("VERIF_SCRATCH"); s != "" {
		return s
	}
	if st, err := os.Stat("/dev/shm"); err == nil && st.IsDir() {
		f, err := os.CreateTemp("/dev/shm", "vh.probe")
		if err == nil {
			f.Close()
			os.Remove(f.Name())
			return "/dev/shm"
		}
	}
	return os.TempDir()
}

func NewWorker(tier string, seed uint64) *Worker {
	d, err := os.MkdirTemp(ScratchRoot(), fmt.Sprintf("vh.%d.", os.Getpid()))
	if err != nil {
		panic(err)
	}
	return &Worker{Tier: tier, Seed: seed, scratch: d}
}

// Dir returns a fresh path (not created) inside the worker's scratch area.
func (w *Worker) Dir(name string) string {
	w.n++
	return filepath.Join(w.scratch, fmt.Sprintf("%s%d", name, w.n))
}

func (w *Worker) Root() string { return w.scratch }

// Clean removes everything created since the last Clean.
func (w *Worker) Clean() {
	ents, _ := os.ReadDir(w.scratch)
	for _, e := range ents {
		os.RemoveAll(filepath.Join(w.scratch, e.Name()))
	}
}

func (w *Worker) Close() { os.RemoveAll(w.scratch) }

// WorkerMain runs the cases of one shard and writes the journal.
//
//	vh worker <prop> <tier> <seed> <shard> <nshards> <journal> [after=<idx>] [only=<idx>]
func WorkerMain(args []string) int {
	if len(args) < 6 {
		fmt.Fprintln(os.Stderr, "worker: bad args")
		return 2
	}
	p := Lookup(args[0])
	if p == nil {
		fmt.Fprintln(os.Stderr, "worker: unknown property", args[0])
		return 2
	}
	tier := args[1]
	seed, _ := strconv.ParseUint(args[2], 10, 64)
	shard, _ := strconv.Atoi(args[3])
	nsh, _ := strconv.Atoi(args[4])
	jpath := args[5]
	after, only := -1, -1
	for _, a := range args[6:] {
		if strings.HasPrefix(a, "after=") {
			after, _ = strconv.Atoi(a[6:])
		}
		if strings.HasPrefix(a, "only=") {
			only, _ = strconv.Atoi(a[5:])
		}
	}
	// Bound private anonymous memory (the Go heap) so that a runaway allocation in
	// the engine ends this worker with "out of memory" instead of the machine's
	// OOM killer ending arbitrary processes. Shared file mappings (MMap I/O) do
	// not count against RLIMIT_DATA.
	lim := uint64(6 << 30)
	syscall.Setrlimit(2 /* RLIMIT_DATA */, &syscall.Rlimit{Cur: lim, Max: lim})
	jf, err := os.OpenFile(jpath, os.O_CREATE|os.O_WRONLY|os.O_APPEND, 0644)
	if err != nil {
		fmt.Fprintln(os.Stderr, "worker:", err)
		return 2
	}
	defer jf.Close()
	budget := 300 * time.Second
	if b, ok := p.(CaseBudgeter); ok {
		budget = b.CaseBudget(tier)
	}
	cases := filterCases(p.Cases(tier, seed))
	w := NewWorker(tier, seed)
	defer w.Close()
	for _, c := range cases {
		if only >= 0 {
			if c.Index != only {
				continue
			}
		} else {
			if c.Index%nsh != shard || c.Index <= after {
				continue
			}
		}
		fmt.Fprintf(jf, "BEGIN %d\n", c.Index)
		idx := c.Index
		wd := time.AfterFunc(budget, func() {
			fmt.Fprintf(jf, "HANG %d\n", idx)
			fmt.Fprintf(os.Stderr, "\n=== WATCHDOG: case %d exceeded %v; goroutine dump follows ===\n", idx, budget)
			pprof.Lookup("goroutine").WriteTo(os.Stderr, 2)
			os.Exit(3)
		})
		res := runCase(p, c, w)
		wd.Stop()
		res.Index, res.ID = c.Index, c.ID
		if res.Verdict == "" {
			res.Verdict = "held"
		}
		b, _ := json.Marshal(res)
		jf.Write(append(append([]byte("R "), b...), '\n'))
		w.Clean()
	}
	fmt.Fprintf(jf, "DONE\n")
	return 0
}

func runCase(p Property, c Case, w *Worker) (res Result) {
	defer func() {
		if r := recover(); r != nil {
			buf := make([]byte, 16<<10)
			n := runtime.Stack(buf, false)
			res.Violate(fmt.Sprintf("panic escaped the case: %v", r),
				map[string]string{"class": "panic", "panic": firstLine(fmt.Sprint(r))}, string(buf[:n]))
		}
	}()
	return p.Run(c, w)
}

func firstLine(s string) string {
	if i := strings.IndexByte(s, '\n'); i >= 0 {
		s = s[:i]
	}
	if len(s) > 200 {
		s = s[:200]
	}
	return s
}

// ---------------------------------------------------------------------------
// Driver side

type KnownFinding struct {
	Status    string            `json:"status"` // open | fixed
	Property  string            `json:"property"`
	Signature string            `json:"signature,omitempty"`
	Match     map[string]string `json:"match,omitempty"` // feature -> anchored regexp
	What      string            `json:"what"`
	Commit    string            `json:"commit,omitempty"`
	Line      string            `json:"line,omitempty"`
}

func VerifDir() string {
	if d := os.Getenv("VERIF_DIR"); d != "" {
		return d
	}
	return "/verif"
}

func loadKnown() []KnownFinding {
	var k struct {
		Findings []KnownFinding `json:"findings"`
	}
	b, err := os.ReadFile(filepath.Join(VerifDir(), "known_findings.json"))
	if err != nil {
		return nil
	}
	if err := json.Unmarshal(b, &k); err != nil {
		fmt.Fprintln(os.Stderr, "known_findings.json:", err)
		os.Exit(2)
	}
	return k.Findings
}

func (k KnownFinding) matches(prop string, v Violation) bool {
	if k.Status != "open" || k.Property != prop || len(k.Match) == 0 {
		return false
	}
	for f, pat := range k.Match {
		val, ok := v.Features[f]
		if !ok {
			return false
		}
		re, err := regexp.Compile("^(?:" + pat + ")$")
		if err != nil || !re.MatchString(val) {
			return false
		}
	}
	return true
}

func EnvSeed() uint64 {
	s := os.Getenv("VERIF_SEED")
	if s == "" {
		return 1
	}
	v, err := strconv.ParseUint(s, 10, 64)
	if err != nil {
		// accept negative / arbitrary strings deterministically
		h := sha256.Sum256([]byte(s))
		return uint64(h[0]) | uint64(h[1])<<8 | uint64(h[2])<<16 | uint64(h[3])<<24
	}
	return v
}

type shardState struct {
	gaveUp  bool
	shard   int
	after   int
	results []Result
	deaths  []deathInfo
}

type deathInfo struct {
	index  int
	hang   bool
	stderr string
	exit   string
}

func parseJournal(path string) (results []Result, open int, hang bool, done bool) {
	open = -1
	f, err := os.Open(path)
	if err != nil {
		return
	}
	defer f.Close()
	sc := bufio.NewScanner(f)
	sc.Buffer(make([]byte, 1<<20), 64<<20)
	for sc.Scan() {
		l := sc.Text()
		switch {
		case strings.HasPrefix(l, "BEGIN "):
			open, _ = strconv.Atoi(l[6:])
		case strings.HasPrefix(l, "HANG "):
			hang = true
		case strings.HasPrefix(l, "R "):
			var r Result
			if json.Unmarshal([]byte(l[2:]), &r) == nil {
				results = append(results, r)
				if r.Index == open {
					open = -1
				}
			}
		case l == "DONE":
			done = true
		}
	}
	return
}

func tail(s string, n int) string {
	if len(s) > n {
		h := n / 3
		return s[:h] + "\n...[cut]...\n" + s[len(s)-(n-h):]
	}
	return s
}

// runWorker launches one worker process and waits for it.
func runWorker(prop, tier string, seed uint64, shard, nsh int, journal, errPath string, extra ...string) (exit string) {
	exe, _ := os.Executable()
	args := append([]string{"worker", prop, tier, strconv.FormatUint(seed, 10), strconv.Itoa(shard), strconv.Itoa(nsh), journal}, extra...)
	cmd := exec.Command(exe, args...)
	ef, _ := os.Create(errPath)
	defer ef.Close()
	cmd.Stdout = ef
	cmd.Stderr = ef
	cmd.Env = append(os.Environ(), "GORACE=halt_on_error=0 log_path="+errPath+".race", "GOTRACEBACK=all")
	cmd.SysProcAttr = &syscall.SysProcAttr{Setpgid: true}
	if err := cmd.Run(); err != nil {
		return err.Error()
	}
	return ""
}

// Drive runs a whole check and returns the process exit code.
func Drive(propID, tier string) int {
	start := time.Now()
	p := Lookup(propID)
	if p == nil {
		fmt.Fprintln(os.Stderr, "unknown property", propID)
		return 2
	}
	seed := EnvSeed()
	cases := filterCases(p.Cases(tier, seed))
	if len(cases) == 0 {
		fmt.Fprintln(os.Stderr, "no cases")
		return 2
	}
	nsh := runtime.NumCPU()
	if v := os.Getenv("VERIF_WORKERS"); v != "" {
		nsh, _ = strconv.Atoi(v)
	}
	if nsh > len(cases) {
		nsh = len(cases)
	}
	if nsh < 1 {
		nsh = 1
	}
	tmp, err := os.MkdirTemp(ScratchRoot(), "vhdrv.")
	if err != nil {
		fmt.Fprintln(os.Stderr, err)
		return 2
	}
	defer os.RemoveAll(tmp)

	states := make([]*shardState, nsh)
	var totalDeaths atomic.Int64
	var wg sync.WaitGroup
	for s := 0; s < nsh; s++ {
		states[s] = &shardState{shard: s, after: -1}
		wg.Add(1)
		go func(st *shardState) {
			defer wg.Done()
			for attempt := 0; attempt < 200; attempt++ {
				j := filepath.Join(tmp, fmt.Sprintf("j.%d.%d", st.shard, attempt))
				e := filepath.Join(tmp, fmt.Sprintf("e.%d.%d", st.shard, attempt))
				ex := runWorker(propID, tier, seed, st.shard, nsh, j, e, fmt.Sprintf("after=%d", st.after))
				res, open, hang, done := parseJournal(j)
				st.results = append(st.results, res...)
				collectRace(e+".race", st, res)
				if done && open < 0 {
					return
				}
				if open < 0 {
					// died outside any case: give up on this shard
					eb, _ := os.ReadFile(e)
					st.deaths = append(st.deaths, deathInfo{index: -1, stderr: tail(string(eb), 6000), exit: ex})
					return
				}
				eb, _ := os.ReadFile(e)
				st.deaths = append(st.deaths, deathInfo{index: open, hang: hang, stderr: tail(string(eb), 12000), exit: ex})
				st.after = open
				if totalDeaths.Add(1) >= 6 {
					// a tree that keeps killing workers has been shown to be broken; stop exploring
					st.gaveUp = true
					return
				}
			}
		}(states[s])
	}
	wg.Wait()

	// aggregate
	byIndex := map[int]Result{}
	for _, st := range states {
		for _, r := range st.results {
			byIndex[r.Index] = r
		}
	}
	// worker deaths: re-run the single case once in a fresh worker
	reruns := 0
	for _, st := range states {
		for _, d := range st.deaths {
			r := Result{Index: d.index, Verdict: "violated"}
			if d.index >= 0 && d.index < len(cases) {
				r.ID = cases[d.index].ID
			}
			if d.index < 0 {
				fmt.Fprintf(os.Stderr, "worker for shard %d died outside a case (%s):\n%s\n", st.shard, d.exit, d.stderr)
				return 2
			}
			// confirm reproducibility in a fresh process (first three deaths only:
			// a tree that kills every worker does not need 16 confirmations)
			var res2 []Result
			open2, hang2 := d.index, d.hang
			reproducedNote := "not-attempted"
			if reruns < 3 {
				reruns++
				j := filepath.Join(tmp, fmt.Sprintf("rj.%d", d.index))
				e := filepath.Join(tmp, fmt.Sprintf("re.%d", d.index))
				runWorker(propID, tier, seed, 0, 1, j, e, fmt.Sprintf("only=%d", d.index))
				res2, open2, hang2, _ = parseJournal(j)
				reproducedNote = fmt.Sprint(open2 >= 0)
			}
			reproduced := open2 >= 0
			if d.hang {
				// watchdog expiry: inconclusive unless the property classifies the dump
				cls := "hang"
				if hc, ok := p.(HangClassifier); ok {
					cls = hc.ClassifyHang(d.stderr)
				}
				if cls == "deadlock" {
					r.Violate("deadlock: all client goroutines blocked on engine locks",
						map[string]string{"class": "deadlock", "reproduced": fmt.Sprint(reproduced && hang2), "sig": deadlockSig(d.stderr)}, d.stderr)
				} else if reproduced && hang2 {
					r.Violate("an engine call did not return: the case hit the watchdog twice, in two fresh processes",
						map[string]string{"class": "hang-reproduced", "sig": deadlockSig(d.stderr)}, d.stderr)
				} else {
					r.Verdict = "inconclusive"
					r.Note = "watchdog expired once without deadlock signature (reproduction: " + reproducedNote + ")"
					if !reproduced && len(res2) == 1 {
						r = res2[0] // second attempt finished: use its verdict
					}
				}
			} else {
				r.Violate("process death during case", map[string]string{
					"class": "process-death", "reproduced": reproducedNote, "death": deathClass(d.stderr)}, d.stderr)
			}
			byIndex[d.index] = r
		}
	}

	counters := map[string]int64{}
	sets := map[string]map[string]bool{}
	distinct := map[string]bool{}
	var samples []any
	var inconcl []string
	type vrec struct {
		r Result
		v Violation
	}
	var viols []vrec
	evals := 0
	idxs := make([]int, 0, len(byIndex))
	for i := range byIndex {
		idxs = append(idxs, i)
	}
	sort.Ints(idxs)
	for _, i := range idxs {
		r := byIndex[i]
		evals++
		for k, v := range r.Counters {
			counters[k] += v
		}
		for k, vs := range r.Sets {
			if sets[k] == nil {
				sets[k] = map[string]bool{}
			}
			for _, v := range vs {
				sets[k][v] = true
			}
		}
		if r.Nontrivial && r.Hash != "" {
			distinct[r.Hash] = true
		}
		if r.Sample != nil && len(samples) < 3 {
			samples = append(samples, r.Sample)
		}
		switch r.Verdict {
		case "inconclusive":
			inconcl = append(inconcl, fmt.Sprintf("%s: %s", r.ID, r.Note))
		case "violated":
			for _, v := range r.Violations {
				viols = append(viols, vrec{r, v})
			}
		}
	}
	missing := len(cases) - evals
	gaveUp := false
	for _, st := range states {
		if st.gaveUp {
			gaveUp = true
		}
	}

	known := loadKnown()
	knownHit := map[string]bool{}
	var unknown []vrec
	for _, vr := range viols {
		hit := false
		for _, k := range known {
			if k.matches(propID, vr.v) {
				knownHit[k.What] = true
				hit = true
				break
			}
		}
		if !hit {
			unknown = append(unknown, vr)
		}
	}
	khits := []string{}
	for w := range knownHit {
		khits = append(khits, w)
	}
	sort.Strings(khits)
	for _, w := range khits {
		fmt.Printf("KNOWN-FINDING: property=%s %s\n", propID, w)
	}

	// replay files for unknown violations (dedupe by feature signature + message head)
	seenSig := map[string]bool{}
	printed := 0
	for _, vr := range unknown {
		sig := sigOf(vr.v)
		if seenSig[sig] {
			continue
		}
		seenSig[sig] = true
		if printed >= 25 {
			continue
		}
		printed++
		rp := map[string]any{
			"property": propID, "tier": tier, "seed": seed, "index": vr.r.Index, "case_id": vr.r.ID,
			"violation": vr.v, "sample": vr.r.Sample, "repo_rev": RepoRev(),
		}
		b, _ := json.MarshalIndent(rp, "", " ")
		h := sha256.Sum256(b)
		dir := filepath.Join(VerifDir(), "replays", propID)
		os.MkdirAll(dir, 0755)
		path := filepath.Join(dir, hex.EncodeToString(h[:6])+".json")
		os.WriteFile(path, b, 0644)
		fmt.Printf("VIOLATION property=%s replay=%s\n", propID, path)
		fmt.Printf("  case %s: %s\n", vr.r.ID, firstLine(vr.v.Msg))
	}

	// broken-run detection
	broken := []string{}
	for _, c := range p.Required() {
		if counters[c] == 0 {
			broken = append(broken, c)
		}
	}
	if missing > 0 && !gaveUp {
		broken = append(broken, fmt.Sprintf("%d cases produced no result", missing))
	}
	if gaveUp {
		fmt.Printf("NOTE: exploration stopped early after repeated worker deaths/hangs; %d cases were not run\n", missing)
	}

	// evidence
	setCounts := map[string]int{}
	setValues := map[string][]string{}
	for k, s := range sets {
		setCounts[k] = len(s)
		if len(s) <= 64 {
			for v := range s {
				setValues[k] = append(setValues[k], v)
			}
			sort.Strings(setValues[k])
		}
	}
	cov := map[string]any{
		"evaluations":         evals,
		"distinct_nontrivial": len(distinct),
		"rule":                p.Rule(),
		"samples":             samples,
		"observed":            counters,
		"distinct_observed":   setCounts,
		"distinct_values":     setValues,
		"inconclusive":        len(inconcl),
		"inconclusive_cases":  capList(inconcl, 20),
		"known_findings_hit":  khits,
		"workers":             nsh,
		"repo_rev":            RepoRev(),
	}
	if ex, ok := p.(Exhaustiver); ok && ex.Exhaustive(tier) && missing == 0 {
		cov["exhaustive"] = true
	}
	if ex, ok := p.(Extra); ok {
		for k, v := range ex.ExtraCoverage(tier, counters, sets) {
			cov[k] = v
		}
	}
	if len(samples) == 0 {
		cov["samples"] = []any{"(no sample produced)"}
	}
	ev := map[string]any{
		"property_id": propID,
		"tier":        tier,
		"seed":        seed,
		"level":       p.Level(),
		"coverage":    cov,
		"assumptions": p.Assumptions(),
		"wall_s":      time.Since(start).Seconds(),
		"violations":  len(unknown),
	}
	eb, _ := json.MarshalIndent(ev, "", " ")
	os.MkdirAll(filepath.Join(VerifDir(), "evidence"), 0755)
	if os.Getenv("VERIF_NO_EVIDENCE") == "" {
		os.WriteFile(filepath.Join(VerifDir(), "evidence", propID+".json"), eb, 0644)
	}

	fmt.Printf("%s %s seed=%d: cases=%d distinct_nontrivial=%d violations=%d known=%d inconclusive=%d wall=%.1fs\n",
		propID, tier, seed, evals, len(distinct), len(unknown), len(viols)-len(unknown), len(inconcl), time.Since(start).Seconds())
	keys := make([]string, 0, len(counters))
	for k := range counters {
		keys = append(keys, k)
	}
	sort.Strings(keys)
	var sb strings.Builder
	for _, k := range keys {
		fmt.Fprintf(&sb, " %s=%d", k, counters[k])
	}
	fmt.Printf("observed:%s\n", sb.String())
	if len(unknown) > 0 {
		return 1
	}
	if len(broken) > 0 {
		fmt.Printf("BROKEN RUN: monitors observed nothing for: %s\n", strings.Join(broken, ", "))
		return 2
	}
	return 0
}

type HangClassifier interface{ ClassifyHang(dump string) string }

func capList(l []string, n int) []string {
	if len(l) > n {
		return l[:n]
	}
	if l == nil {
		return []string{}
	}
	return l
}

func sigOf(v Violation) string {
	ks := make([]string, 0, len(v.Features))
	for k := range v.Features {
		ks = append(ks, k)
	}
	sort.Strings(ks)
	var sb strings.Builder
	for _, k := range ks {
		sb.WriteString(k + "=" + v.Features[k] + ";")
	}
	if len(ks) == 0 {
		sb.WriteString(firstLine(v.Msg))
	}
	return sb.String()
}

func deathClass(stderr string) string {
	for _, pat := range []string{"SIGBUS", "SIGSEGV", "fatal error: sync: Unlock of unlocked RWMutex", "fatal error: sync: RUnlock of unlocked RWMutex",
		"fatal error: all goroutines are asleep", "fatal error: checkptr", "fatal error: concurrent map", "fatal error: runtime: out of memory", "fatal error:", "panic:", "signal: killed"} {
		if strings.Contains(stderr, pat) {
			return pat
		}
	}
	return "unknown"
}

func deadlockSig(dump string) string {
	re := regexp.MustCompile(`xixi-kv\.\(\*[A-Za-z]+\)\.[A-Za-z]+`)
	m := map[string]bool{}
	for _, s := range re.FindAllString(dump, -1) {
		m[s] = true
	}
	l := []string{}
	for s := range m {
		l = append(l, s)
	}
	sort.Strings(l)
	if len(l) > 6 {
		l = l[:6]
	}
	return strings.Join(l, ",")
}

// collectRace parses race-detector logs written by a worker and attaches the
// reports to the shard as pseudo results handled by the property (see RaceSink).
func collectRace(prefix string, st *shardState, res []Result) {
	matches, _ := filepath.Glob(prefix + ".*")
	for _, m := range matches {
		b, err := os.ReadFile(m)
		if err != nil || len(b) == 0 {
			continue
		}
		reports := SplitRaceReports(string(b))
		if len(reports) == 0 {
			continue
		}
		// attribute to the last result of this batch (race logs are per process)
		idx := -1
		if len(st.results) > 0 {
			idx = len(st.results) - 1
		}
		for _, rep := range reports {
			sig, engine := RaceSignature(rep)
			if !engine {
				if idx >= 0 {
					st.results[idx].Add("race_reports_outside_engine", 1)
				}
				continue
			}
			if idx >= 0 {
				r := &st.results[idx]
				r.Add("race_reports_engine", 1)
				dup := false
				for _, v := range r.Violations {
					if v.Features["race"] == sig {
						dup = true
					}
				}
				if !dup {
					r.Verdict = "violated"
					r.Violations = append(r.Violations, Violation{Msg: "DATA RACE " + sig, Features: map[string]string{"class": "data-race", "race": sig}, Detail: rep})
				}
			}
		}
	}
}

func SplitRaceReports(s string) []string {
	var out []string
	parts := strings.Split(s, "==================")
	for _, p := range parts {
		if strings.Contains(p, "WARNING: DATA RACE") {
			out = append(out, strings.TrimSpace(p))
		}
	}
	return out
}

var frameRe = regexp.MustCompile(`(?m)^\s+(\S+)\(.*\)\s*$`)

// RaceSignature reduces a report to the pair of innermost engine functions of
// the two conflicting accesses (line numbers stripped); engine reports whether
// any frame of either access lies in the engine module.
func RaceSignature(rep string) (string, bool) {
	blocks := regexp.MustCompile(`(?m)^(?:Write|Read|Previous write|Previous read|Atomic|Previous atomic)[^\n]*:\n((?:\s+\S[^\n]*\n)+)`).FindAllStringSubmatch(rep+"\n", -1)
	var sigs []string
	engine := false
	for _, b := range blocks {
		if len(sigs) == 2 {
			break
		}
		fn := ""
		for _, m := range frameRe.FindAllStringSubmatch(b[1], -1) {
			f := m[1]
			if strings.Contains(f, "github.com/XiXi-2024/xixi-kv") && !strings.Contains(f, "/vhook") {
				fn = strings.TrimPrefix(f, "github.com/XiXi-2024/")
				engine = true
				break
			}
		}
		if fn == "" {
			fn = "(outside engine)"
		}
		sigs = append(sigs, fn)
	}
	sort.Strings(sigs)
	return strings.Join(sigs, " <-> "), engine
}

var repoRevOnce sync.Once
var repoRev string

func RepoDir() string {
	if d := os.Getenv("VERIF_REPO"); d != "" {
		return d
	}
	return "/repo"
}

func RepoRev() string {
	repoRevOnce.Do(func() {
		out, err := exec.Command("git", "-C", RepoDir(), "rev-parse", "--short", "HEAD").Output()
		if err != nil {
			repoRev = "unknown"
			return
		}
		repoRev = strings.TrimSpace(string(out))
		st, _ := exec.Command("git", "-C", RepoDir(), "status", "--porcelain", "--untracked-files=no").Output()
		if len(bytes.TrimSpace(st)) > 0 {
			repoRev += "+dirty"
		}
	})
	return repoRev
}

// ReplayMain re-executes the case recorded in a replay file.
func ReplayMain(path string) int {
	b, err := os.ReadFile(path)
	if err != nil {
		fmt.Fprintln(os.Stderr, err)
		return 2
	}
	var rp struct {
		Property string `json:"property"`
		Tier     string `json:"tier"`
		Seed     uint64 `json:"seed"`
		Index    int    `json:"index"`
	}
	if err := json.Unmarshal(b, &rp); err != nil {
		fmt.Fprintln(os.Stderr, err)
		return 2
	}
	tmp, _ := os.MkdirTemp(ScratchRoot(), "vhrep.")
	defer os.RemoveAll(tmp)
	j := filepath.Join(tmp, "j")
	e := filepath.Join(tmp, "e")
	ex := runWorker(rp.Property, rp.Tier, rp.Seed, 0, 1, j, e, fmt.Sprintf("only=%d", rp.Index))
	res, open, _, _ := parseJournal(j)
	if open >= 0 {
		eb, _ := os.ReadFile(e)
		fmt.Printf("replay: worker died during the case (%s) — reproduced\n%s\n", ex, tail(string(eb), 4000))
		return 1
	}
	if len(res) == 0 {
		fmt.Println("replay: no result")
		return 2
	}
	out, _ := json.MarshalIndent(res[0], "", " ")
	fmt.Println(string(out))
	if res[0].Verdict == "violated" {
		fmt.Println("replay: violation reproduced")
		return 1
	}
	fmt.Println("replay: verdict", res[0].Verdict)
	return 0
}

// Commands holds extra sub-commands registered by property packages.
var Commands = map[string]func(args []string) int{}

// filterCases: VERIF_CASE_FILTER=<substring of the case id> restricts a run to matching cases
// (debugging aid; never set by the registered commands).
func filterCases(cs []Case) []Case {
	f := os.Getenv("VERIF_CASE_FILTER")
	if f == "" {
		return cs
	}
	var out []Case
	for _, c := range cs {
		if strings.Contains(c.ID, f) {
			out = append(out, c)
		}
	}
	return out
}

// HostileName returns a legal directory name made of characters that mean something to
// globbing, formatting, shells or URL code: the engine must treat DirPath as opaque bytes.
func HostileName(i int) string {
	names := []string{"db[1]", "d*b?", "a b\tc", "{x,y}", "100%s%d", "\\back\\slash", "déjà-数据", "-rf", "#frag?q=1&x", "[", "...", "name.data", "x-merge", "000000001.data"}
	return names[i%len(names)]
}
