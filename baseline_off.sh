#!/bin/bash
# Runs the repository's pinned baseline suite with the verif guard OFF and checks
# that every test listed in /root/.vp/BASELINE.json passes.
export GOFLAGS=-mod=mod GOPROXY=off GOSUMDB=off GOTOOLCHAIN=local
cd /repo || exit 2
out=$(mktemp)
go test -mod=mod -json -vet=off -count=1 -timeout 25m ./... > "$out" 2>&1
python3 - "$out" <<'PY'
import json,sys
passed=set(); failed=set()
for l in open(sys.argv[1]):
    try: e=json.loads(l)
    except Exception: continue
    if e.get('Test') and e.get('Action') in('pass','fail'):
        (passed if e['Action']=='pass' else failed).add(e['Package']+'::'+e['Test'])
base=json.load(open('/root/.vp/BASELINE.json'))['stable_pass']
missing=[t for t in base if t not in passed]
print(f"baseline tests: {len(base)} expected, {len(base)-len(missing)} passed, failed={sorted(failed)}")
if missing:
    print("NOT PASSING:", missing); sys.exit(1)
PY
rc=$?
rm -f "$out"
exit $rc
